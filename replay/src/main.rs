// Replay of a verifier counter-example against the REAL crate, through its public API only.
//
// usage: ls_replay key=value ...      (see lib/scenario.py for the keys)
//   kind=inline|static|heap  len=N  cap=N  rc=N  obj=N      pre-state (text is a..z repeated)
//   op=reserve|shrink_to|push_str|insert_str|remove|truncate|pop|clear|clone|clone_from|retain_none|
//      with_capacity|from_str|drop        a0=N a1=N  (integer arguments: additional / min_capacity /
//      idx / new_len / capacity)   slen=N (length of the &str argument)
//   fail=K      refuse the K-th allocator request issued during the operation (0 = none)
// prints one JSON object: {"diverged":bool,"what":[...],"state":{..}}
use lean_string::LeanString;
use std::alloc::{GlobalAlloc, Layout, System};
use std::cell::{Cell, RefCell};
use std::collections::HashMap;

thread_local! {
    static TRACK: Cell<bool> = const { Cell::new(false) };
    static REQ: Cell<usize> = const { Cell::new(0) };
    static FAIL_AT: Cell<usize> = const { Cell::new(0) };
    static ALLOCS: Cell<usize> = const { Cell::new(0) };
    static REALLOCS: Cell<usize> = const { Cell::new(0) };
    static FREES: Cell<usize> = const { Cell::new(0) };
    static BAD: RefCell<Vec<String>> = const { RefCell::new(Vec::new()) };
}
static mut LIVE: Option<HashMap<usize, (usize, usize)>> = None;

struct A;
#[allow(static_mut_refs)]
unsafe impl GlobalAlloc for A {
    unsafe fn alloc(&self, l: Layout) -> *mut u8 {
        // the crate's heap blocks are the only align-8 requests of this program while tracking is
        // on (texts, panic messages and the model String are align 1)
        let on = TRACK.try_with(|t| t.get()).unwrap_or(false) && l.align() == 8;
        if on {
            TRACK.with(|t| t.set(false));
            ALLOCS.with(|c| c.set(c.get() + 1));
            let k = REQ.with(|c| { c.set(c.get() + 1); c.get() });
            if FAIL_AT.with(|f| f.get()) == k {
                TRACK.with(|t| t.set(true));
                return std::ptr::null_mut();
            }
            let p = unsafe { System.alloc(l) };
            unsafe { LIVE.get_or_insert_with(HashMap::new).insert(p as usize, (l.size(), l.align())) };
            TRACK.with(|t| t.set(true));
            return p;
        }
        unsafe { System.alloc(l) }
    }
    unsafe fn dealloc(&self, p: *mut u8, l: Layout) {
        let on = TRACK.try_with(|t| t.get()).unwrap_or(false) && l.align() == 8;
        if on {
            TRACK.with(|t| t.set(false));
            FREES.with(|c| c.set(c.get() + 1));
            match unsafe { LIVE.get_or_insert_with(HashMap::new).remove(&(p as usize)) } {
                Some((s, a)) => {
                    if s != l.size() || a != l.align() {
                        BAD.with(|b| b.borrow_mut().push(format!("dealloc with layout ({},{}) of a block allocated with ({},{})", l.size(), l.align(), s, a)));
                    }
                }
                None => { /* a block allocated before tracking started (pre-state): fine */ }
            }
            TRACK.with(|t| t.set(true));
        }
        unsafe { System.dealloc(p, l) }
    }
    unsafe fn realloc(&self, p: *mut u8, l: Layout, n: usize) -> *mut u8 {
        let on = TRACK.try_with(|t| t.get()).unwrap_or(false) && l.align() == 8;
        if on {
            TRACK.with(|t| t.set(false));
            REALLOCS.with(|c| c.set(c.get() + 1));
            let k = REQ.with(|c| { c.set(c.get() + 1); c.get() });
            if FAIL_AT.with(|f| f.get()) == k {
                TRACK.with(|t| t.set(true));
                return std::ptr::null_mut();
            }
            let q = unsafe { System.realloc(p, l, n) };
            unsafe {
                let m = LIVE.get_or_insert_with(HashMap::new);
                m.remove(&(p as usize));
                m.insert(q as usize, (n, l.align()));
            }
            TRACK.with(|t| t.set(true));
            return q;
        }
        unsafe { System.realloc(p, l, n) }
    }
}
#[global_allocator]
static GA: A = A;

fn text(n: usize) -> String {
    (0..n).map(|i| (b'a' + (i % 26) as u8) as char).collect()
}

fn arg(args: &HashMap<String, String>, k: &str) -> usize {
    args.get(k).and_then(|v| v.parse().ok()).unwrap_or(0)
}

fn main() {
    let args: HashMap<String, String> = std::env::args().skip(1).filter_map(|a| a.split_once('=').map(|(k, v)| (k.to_string(), v.to_string()))).collect();
    let kind = args.get("kind").cloned().unwrap_or_default();
    let op = args.get("op").cloned().unwrap_or_default();
    let (len, cap, rc, obj) = (arg(&args, "len"), arg(&args, "cap"), arg(&args, "rc").max(1), arg(&args, "obj"));
    let (a0, a1, slen, fail) = (arg(&args, "a0"), arg(&args, "a1"), arg(&args, "slen"), arg(&args, "fail"));
    let mut what: Vec<String> = Vec::new();
    // a panic stops the allocator bookkeeping: the hook runs before the panic payload is boxed
    std::panic::set_hook(Box::new(|_| { let _ = TRACK.try_with(|t| t.set(false)); }));

    // ---- pre-state through the public API only
    let leaked: &'static str = Box::leak(text(obj.max(len).max(17)).into_boxed_str());
    let mut constructible = true;
    let mut s: LeanString = match kind.as_str() {
        "inline" => LeanString::from(&text(len.min(16))[..]),
        "static" => {
            let mut s = LeanString::from_static_str(leaked);
            s.truncate(len);
            s
        }
        "heap" => {
            if cap <= 16 {
                constructible = false;
                LeanString::new()
            } else {
                let mut s = LeanString::with_capacity(cap);
                s.push_str(&text(len));
                s
            }
        }
        _ => LeanString::new(),
    };
    if !constructible || (kind == "heap" && (s.capacity() != cap || !s.is_heap_allocated())) || s.len() != len.min(if kind == "inline" { 16 } else { usize::MAX }) {
        println!("{{\"diverged\":false,\"constructible\":false,\"what\":[\"pre-state not constructible through the public API\"]}}");
        return;
    }
    let others: Vec<LeanString> = (1..rc.min(4)).map(|_| s.clone()).collect();
    let others_before: Vec<(String, usize, usize)> = others.iter().map(|o| (o.as_str().to_string(), o.as_ptr() as usize, o.capacity())).collect();
    let mut model = String::from(s.as_str());
    let before = (s.as_str().to_string(), s.len(), s.capacity(), s.as_ptr() as usize, s.is_heap_allocated());
    let sarg = text(slen + 3)[3.min(slen + 3)..].to_string();
    let sarg = &sarg[..slen.min(sarg.len())];
    let shared = rc > 1 && kind == "heap";

    // ---- the operation, on the real crate and on String
    FAIL_AT.with(|f| f.set(fail));
    TRACK.with(|t| t.set(true));
    let r0 = std::panic::catch_unwind(std::panic::AssertUnwindSafe(|| -> Result<u32, ()> {
        match op.as_str() {
            "reserve" => s.try_reserve(a0).map(|_| 0).map_err(|_| ()),
            "shrink_to" => s.try_shrink_to(a0).map(|_| 0).map_err(|_| ()),
            "push_str" => s.try_push_str(sarg).map(|_| 0).map_err(|_| ()),
            "insert_str" => s.try_insert_str(a0, sarg).map(|_| 0).map_err(|_| ()),
            "remove" => s.try_remove(a0).map(|c| c as u32).map_err(|_| ()),
            "truncate" => s.try_truncate(a0).map(|_| 0).map_err(|_| ()),
            "pop" => s.try_pop().map(|c| c.map_or(u32::MAX, |c| c as u32)).map_err(|_| ()),
            "clear" => { s.clear(); Ok(0) }
            "retain_none" => s.try_retain(|_| true).map(|_| 0).map_err(|_| ()),
            "clone" => { let c = s.clone(); let ok = (c == s && c.as_ptr() == s.as_ptr()) || kind == "inline"; drop(c); Ok(if ok { 0 } else { 1 }) }
            _ => Ok(0),
        }
    }));
    TRACK.with(|t| t.set(false));
    let r: Result<Result<String, String>, ()> = match r0 {
        Ok(Ok(c)) => Ok(Ok(match op.as_str() {
            "remove" => char::from_u32(c).map_or(String::new(), |c| c.to_string()),
            "pop" => format!("{:?}", if c == u32::MAX { None } else { char::from_u32(c) }),
            "clone" => if c == 0 { String::new() } else { "clone differs".to_string() },
            _ => String::new(),
        })),
        Ok(Err(())) => Ok(Err("ReserveError".to_string())),
        Err(_) => Err(()),
    };
    let (allocs, reallocs, frees) = (ALLOCS.with(|c| c.get()), REALLOCS.with(|c| c.get()), FREES.with(|c| c.get()));
    let refused = fail != 0 && REQ.with(|c| c.get()) >= fail;

    let m = std::panic::catch_unwind(std::panic::AssertUnwindSafe(|| -> String {
        match op.as_str() {
            "push_str" => { model.push_str(sarg); String::new() }
            "insert_str" => { model.insert_str(a0, sarg); String::new() }
            "remove" => model.remove(a0).to_string(),
            "truncate" => { model.truncate(a0); String::new() }
            "pop" => format!("{:?}", model.pop()),
            "clear" => { model.clear(); String::new() }
            _ => String::new(),
        }
    }));

    // ---- generic consequences of the properties
    match (&r, &m) {
        (Err(_), Ok(_)) if !refused => what.push("LeanString panicked where String does not".into()),
        (Ok(_), Err(_)) => what.push("String panics for this index, LeanString accepted it".into()),
        _ => {}
    }
    let errd = matches!(r, Ok(Err(_))) || r.is_err();
    if errd || (r.is_err() && m.is_err()) {
        if s.as_str() != before.0 || s.capacity() != before.2 || s.as_ptr() as usize != before.3 {
            what.push(format!("failed/panicking call changed the target: text/cap/ptr before {:?} after {:?}", (&before.0, before.2), (s.as_str(), s.capacity())));
        }
        if matches!(r, Ok(Err(_))) && !refused && !(op == "reserve" && len.checked_add(a0).map_or(true, |n| n >= 1 << 56)) {
            what.push("ReserveError although the allocator refused nothing and the request is below 2^56".into());
        }
    } else if let (Ok(Ok(got)), Ok(want)) = (&r, &m) {
        if s.as_str() != model { what.push(format!("text {:?} differs from String's {:?}", s.as_str(), model)); }
        if matches!(op.as_str(), "remove" | "pop") && got != want { what.push(format!("returned {got} but String returns {want}")); }
        if s.capacity() < s.len() { what.push("capacity < len".into()); }
        match op.as_str() {
            "reserve" => {
                if s.capacity() < len + a0 { what.push(format!("capacity {} < len + additional {}", s.capacity(), len + a0)); }
                let grew = s.capacity() != before.2 || shared;
                if grew && s.is_heap_allocated() && s.capacity() != (len + len / 2).max(len + a0) { what.push(format!("grown capacity {} is not max(len + len/2, len + additional) = {}", s.capacity(), (len + len / 2).max(len + a0))); }
                if !shared && kind == "heap" && before.2 >= len + a0 && (allocs + reallocs > 0 || s.as_ptr() as usize != before.3) { what.push("reserve within capacity of an exclusive string allocated or moved".into()); }
            }
            "shrink_to" => {
                let target = len.max(a0);
                if s.capacity() > before.2 && s.capacity() > 16 { what.push(format!("shrink_to grew the capacity from {} to {}", before.2, s.capacity())); }
                if kind == "heap" && before.2 > target { let want = if target <= 16 { 16 } else { target }; if s.capacity() != want { what.push(format!("capacity after shrink_to is {}, not {}", s.capacity(), want)); } }
            }
            "push_str" | "insert_str" => {
                if !shared && kind == "heap" && before.2 >= len + slen && (allocs + reallocs > 0 || s.as_ptr() as usize != before.3) { what.push("append within capacity of an exclusive string allocated or moved".into()); }
                if kind == "inline" && len + slen <= 16 && (allocs > 0 || s.is_heap_allocated()) { what.push("inline edit within 16 bytes touched the heap".into()); }
            }
            "clone" => { if allocs + reallocs > 0 { what.push("clone allocated".into()); } if !got.is_empty() { what.push(got.clone()); } }
            "truncate" | "pop" | "clear" => { if allocs + reallocs > 0 { what.push(format!("{op} allocated")); } }
            _ => {}
        }
    }
    for (o, b) in others.iter().zip(others_before.iter()) {
        if o.as_str() != b.0 || o.as_ptr() as usize != b.1 || o.capacity() != b.2 { what.push(format!("another handle changed: {:?} -> {:?}", b.0, o.as_str())); }
    }
    // ---- everything is released exactly once afterwards
    TRACK.with(|t| t.set(true));
    drop(others);
    drop(s);
    TRACK.with(|t| t.set(false));
    BAD.with(|b| for x in b.borrow().iter() { what.push(x.clone()); });
    #[allow(static_mut_refs)]
    let left = unsafe { LIVE.as_ref().map_or(0, |m| m.len()) };
    if left != 0 { what.push(format!("{left} block(s) allocated during the operation were never released")); }
    let esc = |s: &String| s.replace('\\', "\\\\").replace('"', "\\\"");
    println!("{{\"diverged\":{},\"constructible\":true,\"what\":[{}],\"allocs\":{},\"reallocs\":{},\"frees\":{}}}",
        !what.is_empty(), what.iter().map(|w| format!("\"{}\"", esc(w))).collect::<Vec<_>>().join(","), allocs, reallocs, frees);
}
