//! Stand-in for `loom::sync::atomic`, used by the C04 check through the crate's own
//! `cfg(loom)` seam (`use loom::sync::atomic::{AtomicUsize, Ordering::*, fence}`).
//!
//! It is a *thread-modular* (rely/guarantee) environment under sequential consistency:
//! the code under test is one thread; at every atomic operation on the reference count of the
//! block under test, the ENVIRONMENT - all other owners of that block, on any number of other
//! threads - may clone or drop any of the handles it holds. What the environment never does is
//! write the text (its guarantee; proved of this very code as C02) or conjure a handle when it
//! holds none. If the environment's drops take the count to zero, the environment frees the
//! block, and any later access by the code under test is a failed Kani pointer check.
//! Because environment steps depend on nothing but the count, letting them happen right after
//! each atomic operation of the code under test covers every SC interleaving.
//!
//! It also states the minimum memory orderings of the reference-count protocol (the ones
//! `Arc` documents) as obligations of the atomic API:
//!   * a decrement is at least `Release`;
//!   * the count value that justified exclusive use (freeing, reallocating, writing in place)
//!     was obtained by, or followed by, an `Acquire` operation (`ACQ`).
#![no_std]
#![allow(static_mut_refs)]

pub mod sync {
    pub mod atomic {
        pub use core::sync::atomic::Ordering;

        pub static mut ENV_ON: bool = false;
        /// address of the count cell of the block under test (== start of its allocation)
        pub static mut ENV_BLOCK: *mut u8 = core::ptr::null_mut();
        /// number of handles the environment currently holds on that block
        pub static mut ENV_OWNED: usize = 0;
        pub static mut ENV_FREED: bool = false;
        /// how the environment releases the block (set by the harness: allocator model + free)
        pub static mut ENV_FREE: Option<unsafe fn(*mut u8)> = None;
        /// an Acquire-or-stronger operation has happened since the count was last modified by
        /// this thread's decrement
        pub static mut ACQ: bool = false;
        pub static mut ATOMIC_OPS: usize = 0;

        fn acquires(o: Ordering) -> bool {
            matches!(o, Ordering::Acquire | Ordering::AcqRel | Ordering::SeqCst)
        }
        fn releases(o: Ordering) -> bool {
            matches!(o, Ordering::Release | Ordering::AcqRel | Ordering::SeqCst)
        }

        /// the environment's turn
        #[cfg(kani)]
        unsafe fn env_step(cell: *mut usize) {
            unsafe {
                ATOMIC_OPS += 1;
                if !ENV_ON || ENV_FREED || cell as *mut u8 != ENV_BLOCK {
                    return;
                }
                // with no handle of its own the environment cannot obtain one
                let mut new_owned: usize = kani::any();
                if ENV_OWNED == 0 {
                    new_owned = 0;
                }
                kani::assume(new_owned <= ENV_OWNED + 2);
                *cell = (*cell).wrapping_sub(ENV_OWNED).wrapping_add(new_owned);
                ENV_OWNED = new_owned;
                if *cell == 0 {
                    // the environment dropped the last handle: it frees the block
                    ENV_FREED = true;
                    if let Some(f) = ENV_FREE {
                        f(ENV_BLOCK);
                    }
                }
            }
        }
        #[cfg(not(kani))]
        unsafe fn env_step(_cell: *mut usize) {}

        pub fn fence(o: Ordering) {
            if acquires(o) {
                unsafe { ACQ = true };
            }
        }

        #[repr(transparent)]
        pub struct AtomicUsize(core::cell::UnsafeCell<usize>);
        unsafe impl Sync for AtomicUsize {}
        impl AtomicUsize {
            pub const fn new(v: usize) -> Self {
                Self(core::cell::UnsafeCell::new(v))
            }
            pub fn load(&self, o: Ordering) -> usize {
                unsafe {
                    let p = self.0.get();
                    env_step(p);
                    let v = *p;
                    ACQ = acquires(o);
                    env_step(p);
                    v
                }
            }
            pub fn fetch_add(&self, v: usize, o: Ordering) -> usize {
                unsafe {
                    let p = self.0.get();
                    env_step(p);
                    let old = *p;
                    *p = old.wrapping_add(v);
                    if acquires(o) {
                        ACQ = true;
                    }
                    env_step(p);
                    old
                }
            }
            pub fn fetch_sub(&self, v: usize, o: Ordering) -> usize {
                unsafe {
                    let p = self.0.get();
                    env_step(p);
                    let old = *p;
                    *p = old.wrapping_sub(v);
                    #[cfg(kani)]
                    kani::assert(releases(o), "OBL:conc.decrement_is_at_least_release|C04");
                    ACQ = acquires(o);
                    // if this decrement left other owners, they may drop (and free) right away
                    if old > v {
                        env_step(p);
                    }
                    old
                }
            }
        }
    }
}
