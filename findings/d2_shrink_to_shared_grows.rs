// Demonstration of defect D2 on the real crate (copy into tests/ of a checkout and run
// `cargo test --offline --test d2_shrink_to_shared_grows`).
//
// Before the fix: `shrink_to` on a heap buffer shared with another handle sized the private
// copy with the amortised *growth* rule, so the capacity could end up above max(len, m) and
// even above the capacity before the call.
use lean_string::LeanString;

#[test]
fn shrink_to_fit_on_shared_buffer_never_grows_and_is_exact() {
    let mut a = LeanString::with_capacity(40);
    a.push_str("0123456789abcdefghijklmnopqrstuvwxyz"); // 36 bytes, capacity 40
    assert_eq!((a.len(), a.capacity()), (36, 40));
    let keep = a.clone();
    a.shrink_to_fit();
    assert_eq!(a, "0123456789abcdefghijklmnopqrstuvwxyz");
    assert!(a.capacity() <= 40, "shrink_to_fit grew the capacity from 40 to {}", a.capacity());
    assert_eq!(a.capacity(), 36, "capacity after shrink_to_fit must be exactly len");
    assert_eq!((keep.len(), keep.capacity()), (36, 40));
}
