// Demonstration of defect D3 on the real crate (copy into tests/ of a checkout and run
// `cargo test --offline --test d3_collect_leaks_on_panic`).
//
// Before the fix: `FromIterator<char>` accumulated into a bare `Repr` (which has no `Drop`), so
// when the iterator panicked - or an allocation was refused and `unwrap_with_msg` panicked -
// after the text had outgrown the inline buffer, the heap buffer was never released.
use lean_string::LeanString;
use std::alloc::{GlobalAlloc, Layout, System};
use std::cell::Cell;

thread_local! { static LIVE: Cell<isize> = const { Cell::new(0) }; static ON: Cell<bool> = const { Cell::new(false) }; }

struct Counting;
unsafe impl GlobalAlloc for Counting {
    unsafe fn alloc(&self, l: Layout) -> *mut u8 {
        let _ = ON.try_with(|on| if on.get() { let _ = LIVE.try_with(|c| c.set(c.get() + 1)); });
        unsafe { System.alloc(l) }
    }
    unsafe fn dealloc(&self, p: *mut u8, l: Layout) {
        let _ = ON.try_with(|on| if on.get() { let _ = LIVE.try_with(|c| c.set(c.get() - 1)); });
        unsafe { System.dealloc(p, l) }
    }
    unsafe fn realloc(&self, p: *mut u8, l: Layout, n: usize) -> *mut u8 {
        unsafe { System.realloc(p, l, n) }
    }
}
#[global_allocator]
static A: Counting = Counting;

#[test]
fn collect_releases_its_buffer_when_the_iterator_panics() {
    std::panic::set_hook(Box::new(|_| {})); // keep the panic message machinery from allocating
    let text: Vec<char> = "0123456789abcdefghijklmnopqrstuvwxyz".chars().collect();
    ON.with(|on| on.set(true));
    let before = LIVE.with(|c| c.get());
    let r = std::panic::catch_unwind(|| {
        // no size hint, so the accumulator grows to the heap on the 17th char
        let it = text.iter().copied().enumerate().filter(|_| true).map(|(i, c)| {
            if i == 30 { std::panic::resume_unwind(Box::new(7u8)) }
            c
        });
        let s: LeanString = it.collect();
        s
    });
    let after = LIVE.with(|c| c.get());
    ON.with(|on| on.set(false));
    let _ = std::panic::take_hook(); // default hook again, so that a failing assertion below is printed
    assert!(r.is_err());
    // the only allocation left may be the Box<u8> panic payload we still hold in `r`
    drop(r);
    assert_eq!(after - before, 1, "heap buffer of the half-built string was leaked (live blocks: {})", after - before);
}
