// Demonstration of defect D1 on the real crate (copy into tests/ of a checkout and run
// `cargo test --offline --test d1_shared_reserve_error_frees_under_live_handle`).
//
// Before the fix: `try_reserve` / `try_remove` / `try_retain` on a handle that shares its heap
// buffer gave up the handle's reference *before* allocating the private copy and did not take
// it back when the allocation was refused, so the next drop of another handle freed the buffer
// under the still-live handle (use-after-free, then double free).
use lean_string::LeanString;
use std::alloc::{GlobalAlloc, Layout, System};
use std::sync::atomic::{AtomicBool, AtomicUsize, Ordering::SeqCst};

static WATCH: AtomicUsize = AtomicUsize::new(0);
static FREED: AtomicBool = AtomicBool::new(false);

struct Spy;
unsafe impl GlobalAlloc for Spy {
    unsafe fn alloc(&self, l: Layout) -> *mut u8 {
        unsafe { System.alloc(l) }
    }
    unsafe fn dealloc(&self, p: *mut u8, l: Layout) {
        if p as usize == WATCH.load(SeqCst) {
            FREED.store(true, SeqCst);
        }
        unsafe { System.dealloc(p, l) }
    }
}
#[global_allocator]
static A: Spy = Spy;

#[test]
fn failed_reserve_on_shared_buffer_keeps_its_reference() {
    let a = LeanString::from("0123456789abcdefghij"); // 20 bytes: heap
    let mut b = a.clone();
    // len + additional >= 2^56: refused without even asking the allocator
    assert!(b.try_reserve(1 << 60).is_err());
    // header {count, capacity} sits 16 bytes in front of the text
    WATCH.store(b.as_ptr() as usize - 16, SeqCst);
    drop(a);
    assert!(!FREED.load(SeqCst), "the shared buffer was freed while `b` still points to it");
    assert_eq!(b, "0123456789abcdefghij");
    WATCH.store(0, SeqCst);
}
