// V-COMP: the Hoare composition behind the modular harnesses (DESIGN 3.5), machine-checked.
//
// For push_str / insert_str / remove / retain the Kani side proves three things separately:
//   (1) the CALLEE contract on the real callee, for every storage kind
//       (reserve_*, ensure_modifiable_*: text kept, result exclusive, room for the request,
//        everything another handle observes changes only by "this handle left", Err = identity);
//   (2) the CALL PROTOCOL of the real caller (called exactly once, with the right argument,
//       before anything was written, no allocator call outside, Err propagated unchanged);
//   (3) the BODY contract of the real caller on any post-state of the callee.
// This file proves that (1) /\ (2) /\ (3) imply the whole-operation contract that the
// properties need, for every pre-state - in particular for shared and static ones, which
// the body harness never sees. Specification-only; the end-to-end harnesses (verif_e2e.rs)
// re-check the conclusion directly on bounded sizes.
use vstd::prelude::*;
verus! {

/// what one handle is and what the rest of the world can observe
pub struct St {
    pub text: Seq<u8>,
    pub cap: nat,
    /// inline, or heap with reference count 1
    pub excl: bool,
    /// everything any OTHER handle can observe (their texts, the shared block's bytes and
    /// capacity, borrowed static objects), abstractly
    pub others: int,
    /// number of handles on the block this handle started on, this one included (0: none)
    pub rc_here: nat,
}

/// (1) callee contracts, exactly the clauses the Kani obligations establish
pub open spec fn reserve_ok(s: St, n: nat, s1: St) -> bool {
    &&& s1.text == s.text                       // reserve.len_same, reserve.text_same
    &&& s1.excl                                 // reserve.result_exclusive_and_writable
    &&& s1.cap >= s.text.len() + n              // reserve.cap_ge_len_plus_n
    &&& s1.others == s.others                   // *_old_block_intact, static_untouched
}
pub open spec fn ensure_modifiable_ok(s: St, s1: St) -> bool {
    &&& s1.text == s.text
    &&& s1.excl
    &&& s1.cap >= s.text.len()
    &&& s1.others == s.others
}

/// (3) body contracts on a callee post-state (modular harnesses, callee stubbed)
pub open spec fn append_body(s1: St, idx: int, a: Seq<u8>, s2: St) -> bool
    recommends s1.excl, s1.cap >= s1.text.len() + a.len(), 0 <= idx <= s1.text.len(),
{
    &&& s2.text == s1.text.subrange(0, idx) + a + s1.text.subrange(idx, s1.text.len() as int)
    &&& s2.excl && s2.cap == s1.cap
    &&& s2.others == s1.others                  // *.no_allocator_call_outside_*, writes stay in own buffer
}
pub open spec fn remove_body(s1: St, idx: int, w: int, s2: St) -> bool
    recommends s1.excl, 0 <= idx, w >= 1, idx + w <= s1.text.len(),
{
    &&& s2.text == s1.text.subrange(0, idx) + s1.text.subrange(idx + w, s1.text.len() as int)
    &&& s2.excl && s2.cap == s1.cap
    &&& s2.others == s1.others
}

/// (2) the call protocol: what the real caller does, as a relation
pub open spec fn insert_str_runs(s: St, idx: int, a: Seq<u8>, ok: bool, s2: St) -> bool {
    // calls reserve(len of argument) exactly once, before writing anything
    exists|s1: St| #![auto] {
        ||| (!ok && s1 == s && s2 == s)                                  // callee Err: propagated, nothing touched
        ||| (ok && reserve_ok(s, a.len(), s1) && append_body(s1, idx, a, s2))
    }
}
pub open spec fn push_str_runs(s: St, a: Seq<u8>, ok: bool, s2: St) -> bool {
    if a.len() == 0 { ok && s2 == s }                                     // push_str.empty_returns_before_reserve
    else { insert_str_runs(s, s.text.len() as int, a, ok, s2) }
}
pub open spec fn remove_runs(s: St, idx: int, w: int, ok: bool, s2: St) -> bool {
    exists|s1: St| #![auto] {
        ||| (!ok && s1 == s && s2 == s)
        ||| (ok && ensure_modifiable_ok(s, s1) && remove_body(s1, idx, w, s2))
    }
}

/// whole-operation contracts, for EVERY pre-state (shared, static, inline, unique)
pub proof fn insert_str_whole(s: St, idx: int, a: Seq<u8>, ok: bool, s2: St)
    requires insert_str_runs(s, idx, a, ok, s2), 0 <= idx <= s.text.len(),
    ensures
        ok ==> s2.text == s.text.subrange(0, idx) + a + s.text.subrange(idx, s.text.len() as int),
        ok ==> s2.excl && s2.cap >= s.text.len() + a.len(),
        s2.others == s.others,                   // C02: nothing another handle observes changed
        !ok ==> s2 == s,                         // C05
{
}

pub proof fn push_str_whole(s: St, a: Seq<u8>, ok: bool, s2: St)
    requires push_str_runs(s, a, ok, s2),
    ensures
        ok ==> s2.text == s.text + a,
        s2.others == s.others,
        !ok ==> s2 == s,
{
    if a.len() == 0 {
        assert(s.text + a =~= s.text);
    } else {
        insert_str_whole(s, s.text.len() as int, a, ok, s2);
        assert(s.text.subrange(0, s.text.len() as int) =~= s.text);
        assert(s.text.subrange(s.text.len() as int, s.text.len() as int) =~= Seq::<u8>::empty());
        assert(s.text + a + Seq::<u8>::empty() =~= s.text + a);
    }
}

pub proof fn remove_whole(s: St, idx: int, w: int, ok: bool, s2: St)
    requires remove_runs(s, idx, w, ok, s2), 0 <= idx, w >= 1, idx + w <= s.text.len(),
    ensures
        ok ==> s2.text == s.text.subrange(0, idx) + s.text.subrange(idx + w, s.text.len() as int),
        ok ==> s2.excl,
        s2.others == s.others,
        !ok ==> s2 == s,
{
}

} // verus!
fn main() {}
