// V-NUM: the integer -> decimal writer (C14), on its real text.
//
// `impl_NumToRepr_for_integers!` is instantiated textually for every ($t, $u) pair the crate
// instantiates it for on a 64-bit target; its `fn into_repr` body is copied from /repo on
// every run and ONLY the rewrite rules of the //@rewrite lines are applied (raw-pointer
// writes into the Repr's buffer become writes into a Vec of the same length; the table lookup
// becomes `lut`, whose agreement with DEC_DIGITS_LUT is the Kani obligation
// lut.table_matches_formula). Ghost annotations (loop invariant, proof blocks) are inserted at
// literal anchors; they add no executable code. Contract: the bytes written are exactly
// sign ++ decimal digits of |x| without leading zeros, for EVERY value of the type; every
// index stays inside the buffer of `digit_count(x)` bytes (Vec bounds checks); the crate's
// `debug_assert_eq!(curr, 0)` holds.
use vstd::prelude::*;
use vstd::arithmetic::div_mod::*;
use vstd::arithmetic::mul::*;
verus! {
global size_of usize == 8;

pub open spec fn pow10(k: nat) -> nat
    decreases k,
{
    if k == 0 { 1 } else { 10 * pow10((k - 1) as nat) }
}

/// the k least significant decimal digits of n as ASCII, most significant first
pub open spec fn dec_digits(n: nat, k: nat) -> Seq<u8>
    decreases k,
{
    if k == 0 { Seq::<u8>::empty() } else { dec_digits(n / 10, (k - 1) as nat).push((48 + n % 10) as u8) }
}

pub open spec fn digits10(n: nat) -> nat
    decreases n,
{
    if n < 10 { 1 } else { 1 + digits10(n / 10) }
}

/// decimal text of an integer: optional '-' then the digits of |x| without leading zeros
pub open spec fn dec_text(x: int) -> Seq<u8> {
    if x < 0 { seq![45u8] + dec_digits((-x) as nat, digits10((-x) as nat)) } else { dec_digits(x as nat, digits10(x as nat)) }
}

proof fn lemma_pow10_pos(k: nat)
    ensures pow10(k) > 0,
    decreases k,
{
    if k > 0 { lemma_pow10_pos((k - 1) as nat); }
}

proof fn lemma_dec_len(n: nat, k: nat)
    ensures dec_digits(n, k).len() == k,
    decreases k,
{
    if k > 0 { lemma_dec_len(n / 10, (k - 1) as nat); }
}

/// digits j+k of n = the j digits of n / 10^k followed by the k low digits of n
proof fn lemma_dec_split(n: nat, j: nat, k: nat)
    ensures dec_digits(n, j + k) == dec_digits(n / pow10(k), j) + dec_digits(n, k),
    decreases k,
{
    if k == 0 {
        assert(n / 1 == n);
        assert(dec_digits(n, 0) =~= Seq::<u8>::empty());
        assert(dec_digits(n, j) + Seq::<u8>::empty() =~= dec_digits(n, j));
    } else {
        let k1 = (k - 1) as nat;
        lemma_dec_split(n / 10, j, k1);
        // (n/10) / 10^(k-1) == n / 10^k
        lemma_pow10_pos(k1);
        lemma_div_denominator(n as int, 10, pow10(k1) as int);
        assert(pow10(k) == 10 * pow10(k1));
        assert((n / 10) / pow10(k1) == n / pow10(k)) by {
            lemma_mul_is_commutative(10, pow10(k1) as int);
        }
        let a = dec_digits(n / pow10(k), j);
        let b = dec_digits(n / 10, k1);
        let d = (48 + n % 10) as u8;
        assert(dec_digits(n, j + k) == dec_digits(n / 10, (j + k1) as nat).push(d));
        assert((a + b).push(d) =~= a + b.push(d));
    }
}

proof fn lemma_dec4(n: nat)
    ensures dec_digits(n, 4) == seq![(48 + (n / 1000) % 10) as u8, (48 + (n / 100) % 10) as u8, (48 + (n / 10) % 10) as u8, (48 + n % 10) as u8],
{
    reveal_with_fuel(dec_digits, 5);
    assert(n / 10 / 10 == n / 100);
    assert(n / 10 / 10 / 10 == n / 1000);
    assert(dec_digits(n, 4) =~= seq![(48 + (n / 1000) % 10) as u8, (48 + (n / 100) % 10) as u8, (48 + (n / 10) % 10) as u8, (48 + n % 10) as u8]);
}
proof fn lemma_dec2(n: nat)
    ensures dec_digits(n, 2) == seq![(48 + (n / 10) % 10) as u8, (48 + n % 10) as u8],
{
    reveal_with_fuel(dec_digits, 3);
    assert(dec_digits(n, 2) =~= seq![(48 + (n / 10) % 10) as u8, (48 + n % 10) as u8]);
}
proof fn lemma_dec1(n: nat)
    ensures dec_digits(n, 1) == seq![(48 + n % 10) as u8],
{
    reveal_with_fuel(dec_digits, 2);
    assert(dec_digits(n, 1) =~= seq![(48 + n % 10) as u8]);
}

proof fn lemma_digits10_step(n: nat, k: nat)
    requires n >= pow10(k),
    ensures digits10(n) == k + digits10(n / pow10(k)),
    decreases k,
{
    if k > 0 {
        let k1 = (k - 1) as nat;
        lemma_pow10_pos(k1);
        assert(n >= 10);
        assert(n / 10 >= pow10(k1)) by {
            assert(pow10(k) == 10 * pow10(k1));
        }
        lemma_digits10_step(n / 10, k1);
        lemma_div_denominator(n as int, 10, pow10(k1) as int);
        lemma_mul_is_commutative(10, pow10(k1) as int);
    } else {
        assert(n / 1 == n);
    }
}

proof fn lemma_pow10_vals()
    ensures pow10(0) == 1, pow10(1) == 10, pow10(2) == 100, pow10(3) == 1000, pow10(4) == 10000,
{
    reveal_with_fuel(pow10, 5);
}

proof fn lemma_pow10_add(a: nat, b: nat)
    ensures pow10(a + b) == pow10(a) * pow10(b),
    decreases a,
{
    if a == 0 {
        assert(pow10(0) == 1);
        assert(1 * pow10(b) == pow10(b));
    } else {
        lemma_pow10_add((a - 1) as nat, b);
        assert(pow10(a + b) == 10 * pow10((a - 1 + b) as nat));
        lemma_mul_is_associative(10, pow10((a - 1) as nat) as int, pow10(b) as int);
    }
}


pub open spec fn lut_spec(i: int) -> u8 {
    if i % 2 == 0 { (48 + (i / 2) / 10) as u8 } else { (48 + (i / 2) % 10) as u8 }
}
fn lut(i: usize) -> (r: u8)
    requires i < 200,
    ensures r == lut_spec(i as int),
{
    let k = i / 2;
    if i % 2 == 0 { (48 + k / 10) as u8 } else { (48 + k % 10) as u8 }
}
proof fn lemma_shl1(y: usize)
    requires y < 100,
    ensures (y << 1) == 2 * y,
{
    assert((y << 1) == 2 * y) by(bit_vector) requires y < 100;
}
pub open spec fn abs(x: int) -> nat { if x < 0 { (-x) as nat } else { x as nat } }
pub open spec fn neg1(x: int) -> nat { if x < 0 { 1 } else { 0 } }

/// two digits written from the table at buf[c], buf[c+1]
pub open spec fn two(v: int) -> Seq<u8> { seq![(48 + (v / 10) % 10) as u8, (48 + v % 10) as u8] }

#[verifier::opaque]
pub open spec fn writer_inv(a: nat, neg: nat, dc: nat, n: nat, curr: nat, buf: Seq<u8>) -> bool {
    let done = (dc - curr) as nat;
    &&& curr <= dc && buf.len() == dc
    &&& n == a / pow10(done)
    &&& buf.subrange(curr as int, dc as int) == dec_digits(a, done)
    &&& curr == neg + digits10(n)
    &&& dc == neg + digits10(a)
    &&& (n > 0 || (a == 0 && done == 0))
}


/// closed form of digits10 below 10^20 (what a verbatim `match` table is checked against)
pub open spec fn digits10_tbl(n: nat) -> nat {
    if n < 10 { 1 } else if n < 100 { 2 } else if n < 1000 { 3 } else if n < 10000 { 4 }
    else if n < 100000 { 5 } else if n < 1000000 { 6 } else if n < 10000000 { 7 }
    else if n < 100000000 { 8 } else if n < 1000000000 { 9 } else if n < 10000000000 { 10 }
    else if n < 100000000000 { 11 } else if n < 1000000000000 { 12 } else if n < 10000000000000 { 13 }
    else if n < 100000000000000 { 14 } else if n < 1000000000000000 { 15 } else if n < 10000000000000000 { 16 }
    else if n < 100000000000000000 { 17 } else if n < 1000000000000000000 { 18 }
    else if n < 10000000000000000000 { 19 } else { 20 }
}
pub open spec fn text_len(x: int) -> nat {
    if x < 0 { 1 + digits10_tbl((-x) as nat) } else { digits10_tbl(x as nat) }
}
proof fn lemma_tbl(n: nat)
    requires n < 100000000000000000000,
    ensures digits10_tbl(n) == digits10(n), 1 <= digits10(n) <= 20,
{
    reveal_with_fuel(digits10, 21);
}

proof fn lemma_digits_tbl(n: nat)
    ensures
        n < 10 ==> digits10(n) == 1,
        10 <= n < 100 ==> digits10(n) == 2,
        100 <= n < 1000 ==> digits10(n) == 3,
        1000 <= n < 10000 ==> digits10(n) == 4,
        10000 <= n < 100000 ==> digits10(n) == 5,
        100000 <= n < 1000000 ==> digits10(n) == 6,
        1000000 <= n < 10000000 ==> digits10(n) == 7,
        10000000 <= n < 100000000 ==> digits10(n) == 8,
        100000000 <= n < 1000000000 ==> digits10(n) == 9,
        1000000000 <= n < 10000000000 ==> digits10(n) == 10,
{
    reveal_with_fuel(digits10, 11);
}

proof fn l_a(n: nat)
    ensures (n % 10000) / 1000 == (n / 1000) % 10, ((n % 10000) / 100) % 10 == (n / 100) % 10,
            ((n % 10000) / 10) % 10 == (n / 10) % 10, (n % 10000) % 10 == n % 10,
{
    let q = n / 10000; let r = n % 10000;
    assert(n == 10000 * q + r);
    assert(n / 1000 == 10 * q + r / 1000);
    assert(n / 100 == 100 * q + r / 100);
    assert(n / 10 == 1000 * q + r / 10);
}
proof fn l_b(r: nat)
    requires r < 10000,
    ensures (r / 100) / 10 == r / 1000, (r % 100) / 10 == (r / 10) % 10, (r % 100) % 10 == r % 10,
            r / 100 < 100, r % 100 < 100, r / 1000 < 10,
{
}
proof fn l_c(h: nat)
    requires h < 100,
    ensures lut_spec((2 * h) as int) == (48 + h / 10) as u8, lut_spec((2 * h + 1) as int) == (48 + h % 10) as u8,
{
    assert((2 * h) % 2 == 0 && (2 * h) / 2 == h);
    assert((2 * h + 1) % 2 == 1 && (2 * h + 1) / 2 == h);
}
proof fn lemma_four(n: nat)
    ensures
        ({ let rem = n % 10000;
           &&& lut_spec((2 * (rem / 100)) as int) == (48 + (n / 1000) % 10) as u8
           &&& lut_spec((2 * (rem / 100) + 1) as int) == (48 + (n / 100) % 10) as u8
           &&& lut_spec((2 * (rem % 100)) as int) == (48 + (n / 10) % 10) as u8
           &&& lut_spec((2 * (rem % 100) + 1) as int) == (48 + n % 10) as u8
           &&& rem / 100 < 100 && rem % 100 < 100 }),
{
    let rem = n % 10000;
    l_a(n);
    l_b(rem);
    l_c(rem / 100);
    l_c(rem % 100);
}

proof fn lemma_inv_facts(a: nat, neg: nat, dc: nat, n: nat, curr: nat, buf: Seq<u8>)
    requires writer_inv(a, neg, dc, n, curr, buf),
    ensures curr <= dc, buf.len() == dc, n >= 10000 ==> curr >= 5, dc == neg + digits10(a),
{
    reveal(writer_inv);
    if n >= 10000 {
        lemma_pow10_vals();
        lemma_digits10_step(n, 4);
    }
}

proof fn lemma_inv_facts2(a: nat, neg: nat, dc: nat, n: nat, curr: nat, buf: Seq<u8>)
    requires writer_inv(a, neg, dc, n, curr, buf),
    ensures curr <= dc, buf.len() == dc, curr == neg + digits10(n), n >= 100 ==> curr >= 3, n >= 10 ==> curr >= 2, curr >= 1,
{
    reveal(writer_inv);
    lemma_digits_tbl(n);
    if n >= 10 { assert(digits10(n) == 1 + digits10(n / 10)); }
    if n >= 100 { assert(digits10(n / 10) == 1 + digits10(n / 10 / 10)); }
}

proof fn lemma_inv_init(a: nat, neg: nat, dc: nat, buf: Seq<u8>)
    requires dc == neg + digits10(a), buf.len() == dc,
    ensures writer_inv(a, neg, dc, a, dc, buf),
{
    reveal(writer_inv);
    lemma_pow10_vals();
    assert(a / 1 == a);
    assert(buf.subrange(dc as int, dc as int) =~= dec_digits(a, 0));
}

/// the `n >= 100` step of the tail: two more digits, n / 100 remains
proof fn lemma_step2(a: nat, neg: nat, dc: nat, n: nat, curr: nat, buf: Seq<u8>, buf2: Seq<u8>)
    requires
        writer_inv(a, neg, dc, n, curr, buf), n >= 100,
        buf2.len() == dc, curr >= 2,
        buf2.subrange(curr as int, dc as int) == buf.subrange(curr as int, dc as int),
        buf2.subrange(curr - 2, curr as int) == dec_digits(n, 2),
    ensures writer_inv(a, neg, dc, n / 100, (curr - 2) as nat, buf2),
{
    reveal(writer_inv);
    let done = (dc - curr) as nat;
    lemma_pow10_vals();
    lemma_pow10_pos(done);
    lemma_dec_split(a, 2, done);
    lemma_pow10_add(2, done);
    lemma_div_denominator(a as int, pow10(done) as int, 100);
    lemma_mul_is_commutative(pow10(done) as int, 100);
    assert(pow10(done + 2) == pow10(done) * 100) by { lemma_mul_is_commutative(pow10(2) as int, pow10(done) as int); }
    assert(n / 100 == a / pow10(done + 2));
    lemma_digits10_step(n, 2);
    assert(buf2.subrange(curr - 2, dc as int) =~= buf2.subrange(curr - 2, curr as int) + buf2.subrange(curr as int, dc as int));
}

/// the last one or two digits
proof fn lemma_final(a: nat, neg: nat, dc: nat, n: nat, curr: nat, buf: Seq<u8>, buf2: Seq<u8>, k: nat)
    requires
        writer_inv(a, neg, dc, n, curr, buf), n < 100, k == (if n < 10 { 1nat } else { 2nat }),
        buf2.len() == dc, curr >= k,
        buf2.subrange(curr as int, dc as int) == buf.subrange(curr as int, dc as int),
        buf2.subrange(curr - k, curr as int) == dec_digits(n, k),
    ensures
        curr - k == neg,
        buf2.subrange(neg as int, dc as int) == dec_digits(a, digits10(a)),
{
    reveal(writer_inv);
    let done = (dc - curr) as nat;
    lemma_pow10_pos(done);
    lemma_dec_split(a, k, done);
    lemma_digits_tbl(n);
    assert(digits10(n) == k);
    if n > 0 {
        // a >= 10^done because a / 10^done == n > 0
        assert(a >= pow10(done)) by {
            if a < pow10(done) { lemma_small_div(a, pow10(done)); }
        }
        lemma_digits10_step(a, done);
    }
    assert(digits10(a) == done + k);
    assert(buf2.subrange(curr - k, dc as int) =~= buf2.subrange(curr - k, curr as int) + buf2.subrange(curr as int, dc as int));
}

proof fn lemma_small_div(a: nat, p: nat)
    requires a < p,
    ensures a / p == 0,
{
    lemma_basic_div(a as int, p as int);
}

proof fn lemma_loop_step(a: nat, neg: nat, dc: nat, n: nat, curr: nat, buf: Seq<u8>, buf2: Seq<u8>)
    requires
        writer_inv(a, neg, dc, n, curr, buf), n >= 10000,
        buf2.len() == dc, curr >= 4,
        buf2.subrange(curr as int, dc as int) == buf.subrange(curr as int, dc as int),
        buf2.subrange(curr - 4, curr as int) == dec_digits(n, 4),
    ensures writer_inv(a, neg, dc, n / 10000, (curr - 4) as nat, buf2),
{
    reveal(writer_inv);
    let done = (dc - curr) as nat;
    lemma_pow10_vals();
    lemma_pow10_pos(done);
    lemma_dec_split(a, 4, done);
    lemma_pow10_add(4, done);
    // a / 10^(done+4) == n / 10000
    lemma_div_denominator(a as int, pow10(done) as int, 10000);
    lemma_mul_is_commutative(pow10(done) as int, 10000);
    assert(pow10(done + 4) == pow10(done) * 10000) by { lemma_mul_is_commutative(pow10(4) as int, pow10(done) as int); }
    assert(n / 10000 == a / pow10(done + 4));
    lemma_digits10_step(n, 4);
    assert(buf2.subrange(curr - 4, dc as int) =~= buf2.subrange(curr - 4, curr as int) + buf2.subrange(curr as int, dc as int));
    assert(n / 10000 > 0);
}

proof fn lemma_neg_i8(x: i8)
    requires x < 0,
    ensures (!(x as u64)).wrapping_add(1) == -(x as int),
{
    assert((!(x as u64)).wrapping_add(1) == ((-(x as i64)) as u64)) by(bit_vector) requires x < 0;
}

//@fn digit_count from src/repr/num_to_repr.rs impl DigitCount for i8 as digit_count_i8 self=x
//@    ensures r == text_len(x as int),
//@end

//@fn digit_count from src/repr/num_to_repr.rs impl DigitCount for u8 as digit_count_u8 self=x
//@    ensures r == text_len(x as int),
//@end

proof fn lemma_neg_i16(x: i16)
    requires x < 0,
    ensures (!(x as u64)).wrapping_add(1) == -(x as int),
{
    assert((!(x as u64)).wrapping_add(1) == ((-(x as i64)) as u64)) by(bit_vector) requires x < 0;
}

//@fn digit_count from src/repr/num_to_repr.rs impl DigitCount for i16 as digit_count_i16 self=x
//@    ensures r == text_len(x as int),
//@end

//@fn digit_count from src/repr/num_to_repr.rs impl DigitCount for u16 as digit_count_u16 self=x
//@    ensures r == text_len(x as int),
//@end

proof fn lemma_neg_i32(x: i32)
    requires x < 0,
    ensures (!(x as u64)).wrapping_add(1) == -(x as int),
{
    assert((!(x as u64)).wrapping_add(1) == ((-(x as i64)) as u64)) by(bit_vector) requires x < 0;
}

//@fn digit_count from src/repr/num_to_repr.rs impl DigitCount for i32 as digit_count_i32 self=x
//@    ensures r == text_len(x as int),
//@end

//@fn digit_count from src/repr/num_to_repr.rs impl DigitCount for u32 as digit_count_u32 self=x
//@    ensures r == text_len(x as int),
//@end

proof fn lemma_neg_i64(x: i64)
    requires x < 0,
    ensures (!(x as u64)).wrapping_add(1) == -(x as int),
{
    assert(x != i64::MIN ==> (!(x as u64)).wrapping_add(1) == ((-x) as u64)) by(bit_vector) requires x < 0;
    assert(x == i64::MIN ==> (!(x as u64)).wrapping_add(1) == 0x8000_0000_0000_0000u64) by(bit_vector);
}

//@fn digit_count from src/repr/num_to_repr.rs impl DigitCount for i64 as digit_count_i64 self=x
//@    ensures r == text_len(x as int),
//@end

//@fn digit_count from src/repr/num_to_repr.rs impl DigitCount for u64 as digit_count_u64 self=x
//@    ensures r == text_len(x as int),
//@end

proof fn lemma_neg_isize(x: isize)
    requires x < 0,
    ensures (!(x as u64)).wrapping_add(1) == -(x as int),
{
    assert(x != isize::MIN ==> (!(x as u64)).wrapping_add(1) == ((-x) as u64)) by(bit_vector) requires x < 0;
    assert(x == isize::MIN ==> (!(x as u64)).wrapping_add(1) == 0x8000_0000_0000_0000u64) by(bit_vector);
}

//@fn digit_count from src/repr/num_to_repr.rs impl DigitCount for isize as digit_count_isize self=x
//@    ensures r == text_len(x as int),
//@rewrite 1 /DigitCount::digit_count\(x as i64\)/ => /digit_count_i64(x as i64)/
//@end

//@fn digit_count from src/repr/num_to_repr.rs impl DigitCount for usize as digit_count_usize self=x
//@    ensures r == text_len(x as int),
//@rewrite 1 /DigitCount::digit_count\(x as u64\)/ => /digit_count_u64(x as u64)/
//@end


#[verifier::rlimit(80)]
//@macrofn into_repr from src/repr/num_to_repr.rs macro impl_NumToRepr_for_integers subst $t=i8,$u=u64 as into_repr_i8 self=x ret=Vec<u8>
//@    ensures r@ == dec_text(x as int),
//@rewrite 1 /let digits_count = DigitCount::digit_count\(x\);/ => /let digits_count = digit_count_i8(x);/
//@rewrite 1 /#\[allow\(unused_comparisons\)\]/ => //
//@rewrite 1 /\(!\(x as u64\)\)/ => /(!(#[verifier::truncate] (x as u64)))/
//@rewrite 1 /let mut repr = Repr::with_capacity\(([^;]*)\)\?;/ => /let mut buf: Vec<u8> = vec![0u8; \1]; assert(buf@.len() == digits_count);/
//@rewrite 1 /let buf_ptr = unsafe \{ repr\.as_slice_mut\(\)\.as_mut_ptr\(\) \};/ => //
//@rewrite 1 /let lut_ptr = DEC_DIGITS_LUT\.as_ptr\(\);/ => //
//@rewrite 4 /ptr::copy_nonoverlapping\(lut_ptr\.add\((\w+)\), buf_ptr\.add\(([^)]+)\), 2\);/ => /buf.set(\2, lut(\1)); buf.set(\2 + 1, lut(\1 + 1));/
//@rewrite 2 /\*buf_ptr\.add\(curr\) = ([^;]+);/ => /buf.set(curr, \1);/
//@rewrite 1 /repr\.set_len\(([^;]*)\);/ => /assert(\1 == buf@.len());/
//@rewrite 1 /debug_assert_eq!\(curr, 0\);/ => /assert(curr == 0);/
//@rewrite 1 /Ok\(repr\)/ => /buf/
//@after `let digits_count = digit_count_i8(x);`
//@| let ghost a: nat = abs(x as int);
//@| let ghost neg: nat = neg1(x as int);
//@| let ghost mut g1: Seq<u8> = Seq::empty();
//@| let ghost mut g2: Seq<u8> = Seq::empty();
//@| let ghost mut gn: nat = 0;
//@| let ghost mut gc: nat = 0;
//@| proof { lemma_tbl(a); }
//@before `let mut n = if is_nonnegative {`
//@| proof { if x < 0 { lemma_neg_i8(x); } }
//@after `let mut curr = digits_count;`
//@| proof { lemma_inv_init(a, neg, digits_count as nat, buf@); }
//@replace `while n >= 10000 {`
//@| while n >= 10000
//@|     invariant writer_inv(a, neg, digits_count as nat, n as nat, curr as nat, buf@), digits_count <= 20,
//@|         buf@.len() == digits_count, curr <= digits_count,
//@|     decreases n,
//@| {
//@|     let ghost n0 = n;
//@|     let ghost buf0 = buf@;
//@|     proof {
//@|         lemma_inv_facts(a, neg, digits_count as nat, n as nat, curr as nat, buf@);
//@|         lemma_four(n as nat);
//@|     }
//@after `let d2 = (rem % 100) << 1;`
//@| proof { lemma_shl1(rem / 100); lemma_shl1(rem % 100); }
//@after `buf.set(curr + 2, lut(d2)); buf.set(curr + 2 + 1, lut(d2 + 1));`
//@| proof {
//@|     lemma_dec4(n0 as nat);
//@|     assert(d1 == 2 * (rem / 100) && d2 == 2 * (rem % 100));
//@|     assert(buf@[curr as int] == (48 + (n0 / 1000) % 10) as u8);
//@|     assert(buf@[curr + 1] == (48 + (n0 / 100) % 10) as u8);
//@|     assert(buf@[curr + 2] == (48 + (n0 / 10) % 10) as u8);
//@|     assert(buf@[curr + 3] == (48 + n0 % 10) as u8);
//@|     assert(buf@.subrange(curr as int, curr + 4) =~= dec_digits(n0 as nat, 4));
//@|     assert(buf@.subrange(curr + 4, digits_count as int) =~= buf0.subrange(curr + 4, digits_count as int));
//@|     lemma_loop_step(a, neg, digits_count as nat, n0 as nat, (curr + 4) as nat, buf0, buf@);
//@| }
//@after `if n >= 100 {`
//@| proof {
//@|     gn = n as nat; g1 = buf@;
//@|     lemma_inv_facts2(a, neg, digits_count as nat, n as nat, curr as nat, buf@); lemma_shl1(n % 100); l_c((n % 100) as nat);
//@| }
//@after[2/3] `buf.set(curr, lut(d1)); buf.set(curr + 1, lut(d1 + 1));`
//@| proof {
//@|     lemma_dec2(gn);
//@|     assert((gn % 100) / 10 == (gn / 10) % 10 && (gn % 100) % 10 == gn % 10);
//@|     assert(buf@.subrange(curr as int, curr + 2) =~= dec_digits(gn, 2));
//@|     assert(buf@.subrange(curr + 2, digits_count as int) =~= g1.subrange(curr + 2, digits_count as int));
//@|     lemma_step2(a, neg, digits_count as nat, gn, (curr + 2) as nat, g1, buf@);
//@| }
//@before `if n < 10 {`
//@| proof {
//@|     gn = n as nat; g1 = buf@; gc = curr as nat;
//@|     lemma_inv_facts2(a, neg, digits_count as nat, n as nat, curr as nat, buf@);
//@| }
//@after `buf.set(curr, (n as u8) + b'0');`
//@| proof {
//@|     lemma_dec1(gn);
//@|     assert(buf@.subrange(curr as int, curr + 1) =~= dec_digits(gn, 1));
//@| }
//@after `let d1 = n << 1;`
//@| proof { lemma_shl1(n); l_c(n as nat); }
//@after[3/3] `buf.set(curr, lut(d1)); buf.set(curr + 1, lut(d1 + 1));`
//@| proof {
//@|     lemma_dec2(gn);
//@|     assert((gn / 10) % 10 == gn / 10);
//@|     assert(buf@.subrange(curr as int, curr + 2) =~= dec_digits(gn, 2));
//@| }
//@before `if !is_nonnegative {`
//@| proof {
//@|     assert(buf@.subrange(gc as int, digits_count as int) =~= g1.subrange(gc as int, digits_count as int));
//@|     lemma_final(a, neg, digits_count as nat, gn, gc, g1, buf@, (gc - curr) as nat);
//@|     g2 = buf@;
//@| }
//@before `assert(curr == 0);`
//@| proof {
//@|     if neg == 1 {
//@|         assert(buf@.subrange(1, digits_count as int) =~= g2.subrange(1, digits_count as int));
//@|         assert(buf@ =~= seq![45u8] + buf@.subrange(1, digits_count as int));
//@|     } else {
//@|         assert(buf@ =~= buf@.subrange(0, digits_count as int));
//@|     }
//@| }
//@end

#[verifier::rlimit(80)]
//@macrofn into_repr from src/repr/num_to_repr.rs macro impl_NumToRepr_for_integers subst $t=u8,$u=u64 as into_repr_u8 self=x ret=Vec<u8>
//@    ensures r@ == dec_text(x as int),
//@rewrite 1 /let digits_count = DigitCount::digit_count\(x\);/ => /let digits_count = digit_count_u8(x);/
//@rewrite 1 /#\[allow\(unused_comparisons\)\]/ => //
//@rewrite 1 /\(!\(x as u64\)\)/ => /(!(#[verifier::truncate] (x as u64)))/
//@rewrite 1 /let mut repr = Repr::with_capacity\(([^;]*)\)\?;/ => /let mut buf: Vec<u8> = vec![0u8; \1]; assert(buf@.len() == digits_count);/
//@rewrite 1 /let buf_ptr = unsafe \{ repr\.as_slice_mut\(\)\.as_mut_ptr\(\) \};/ => //
//@rewrite 1 /let lut_ptr = DEC_DIGITS_LUT\.as_ptr\(\);/ => //
//@rewrite 4 /ptr::copy_nonoverlapping\(lut_ptr\.add\((\w+)\), buf_ptr\.add\(([^)]+)\), 2\);/ => /buf.set(\2, lut(\1)); buf.set(\2 + 1, lut(\1 + 1));/
//@rewrite 2 /\*buf_ptr\.add\(curr\) = ([^;]+);/ => /buf.set(curr, \1);/
//@rewrite 1 /repr\.set_len\(([^;]*)\);/ => /assert(\1 == buf@.len());/
//@rewrite 1 /debug_assert_eq!\(curr, 0\);/ => /assert(curr == 0);/
//@rewrite 1 /Ok\(repr\)/ => /buf/
//@after `let digits_count = digit_count_u8(x);`
//@| let ghost a: nat = abs(x as int);
//@| let ghost neg: nat = neg1(x as int);
//@| let ghost mut g1: Seq<u8> = Seq::empty();
//@| let ghost mut g2: Seq<u8> = Seq::empty();
//@| let ghost mut gn: nat = 0;
//@| let ghost mut gc: nat = 0;
//@| proof { lemma_tbl(a); }
//@before `let mut n = if is_nonnegative {`
//@| proof { }
//@after `let mut curr = digits_count;`
//@| proof { lemma_inv_init(a, neg, digits_count as nat, buf@); }
//@replace `while n >= 10000 {`
//@| while n >= 10000
//@|     invariant writer_inv(a, neg, digits_count as nat, n as nat, curr as nat, buf@), digits_count <= 20,
//@|         buf@.len() == digits_count, curr <= digits_count,
//@|     decreases n,
//@| {
//@|     let ghost n0 = n;
//@|     let ghost buf0 = buf@;
//@|     proof {
//@|         lemma_inv_facts(a, neg, digits_count as nat, n as nat, curr as nat, buf@);
//@|         lemma_four(n as nat);
//@|     }
//@after `let d2 = (rem % 100) << 1;`
//@| proof { lemma_shl1(rem / 100); lemma_shl1(rem % 100); }
//@after `buf.set(curr + 2, lut(d2)); buf.set(curr + 2 + 1, lut(d2 + 1));`
//@| proof {
//@|     lemma_dec4(n0 as nat);
//@|     assert(d1 == 2 * (rem / 100) && d2 == 2 * (rem % 100));
//@|     assert(buf@[curr as int] == (48 + (n0 / 1000) % 10) as u8);
//@|     assert(buf@[curr + 1] == (48 + (n0 / 100) % 10) as u8);
//@|     assert(buf@[curr + 2] == (48 + (n0 / 10) % 10) as u8);
//@|     assert(buf@[curr + 3] == (48 + n0 % 10) as u8);
//@|     assert(buf@.subrange(curr as int, curr + 4) =~= dec_digits(n0 as nat, 4));
//@|     assert(buf@.subrange(curr + 4, digits_count as int) =~= buf0.subrange(curr + 4, digits_count as int));
//@|     lemma_loop_step(a, neg, digits_count as nat, n0 as nat, (curr + 4) as nat, buf0, buf@);
//@| }
//@after `if n >= 100 {`
//@| proof {
//@|     gn = n as nat; g1 = buf@;
//@|     lemma_inv_facts2(a, neg, digits_count as nat, n as nat, curr as nat, buf@); lemma_shl1(n % 100); l_c((n % 100) as nat);
//@| }
//@after[2/3] `buf.set(curr, lut(d1)); buf.set(curr + 1, lut(d1 + 1));`
//@| proof {
//@|     lemma_dec2(gn);
//@|     assert((gn % 100) / 10 == (gn / 10) % 10 && (gn % 100) % 10 == gn % 10);
//@|     assert(buf@.subrange(curr as int, curr + 2) =~= dec_digits(gn, 2));
//@|     assert(buf@.subrange(curr + 2, digits_count as int) =~= g1.subrange(curr + 2, digits_count as int));
//@|     lemma_step2(a, neg, digits_count as nat, gn, (curr + 2) as nat, g1, buf@);
//@| }
//@before `if n < 10 {`
//@| proof {
//@|     gn = n as nat; g1 = buf@; gc = curr as nat;
//@|     lemma_inv_facts2(a, neg, digits_count as nat, n as nat, curr as nat, buf@);
//@| }
//@after `buf.set(curr, (n as u8) + b'0');`
//@| proof {
//@|     lemma_dec1(gn);
//@|     assert(buf@.subrange(curr as int, curr + 1) =~= dec_digits(gn, 1));
//@| }
//@after `let d1 = n << 1;`
//@| proof { lemma_shl1(n); l_c(n as nat); }
//@after[3/3] `buf.set(curr, lut(d1)); buf.set(curr + 1, lut(d1 + 1));`
//@| proof {
//@|     lemma_dec2(gn);
//@|     assert((gn / 10) % 10 == gn / 10);
//@|     assert(buf@.subrange(curr as int, curr + 2) =~= dec_digits(gn, 2));
//@| }
//@before `if !is_nonnegative {`
//@| proof {
//@|     assert(buf@.subrange(gc as int, digits_count as int) =~= g1.subrange(gc as int, digits_count as int));
//@|     lemma_final(a, neg, digits_count as nat, gn, gc, g1, buf@, (gc - curr) as nat);
//@|     g2 = buf@;
//@| }
//@before `assert(curr == 0);`
//@| proof {
//@|     if neg == 1 {
//@|         assert(buf@.subrange(1, digits_count as int) =~= g2.subrange(1, digits_count as int));
//@|         assert(buf@ =~= seq![45u8] + buf@.subrange(1, digits_count as int));
//@|     } else {
//@|         assert(buf@ =~= buf@.subrange(0, digits_count as int));
//@|     }
//@| }
//@end

#[verifier::rlimit(80)]
//@macrofn into_repr from src/repr/num_to_repr.rs macro impl_NumToRepr_for_integers subst $t=i16,$u=u64 as into_repr_i16 self=x ret=Vec<u8>
//@    ensures r@ == dec_text(x as int),
//@rewrite 1 /let digits_count = DigitCount::digit_count\(x\);/ => /let digits_count = digit_count_i16(x);/
//@rewrite 1 /#\[allow\(unused_comparisons\)\]/ => //
//@rewrite 1 /\(!\(x as u64\)\)/ => /(!(#[verifier::truncate] (x as u64)))/
//@rewrite 1 /let mut repr = Repr::with_capacity\(([^;]*)\)\?;/ => /let mut buf: Vec<u8> = vec![0u8; \1]; assert(buf@.len() == digits_count);/
//@rewrite 1 /let buf_ptr = unsafe \{ repr\.as_slice_mut\(\)\.as_mut_ptr\(\) \};/ => //
//@rewrite 1 /let lut_ptr = DEC_DIGITS_LUT\.as_ptr\(\);/ => //
//@rewrite 4 /ptr::copy_nonoverlapping\(lut_ptr\.add\((\w+)\), buf_ptr\.add\(([^)]+)\), 2\);/ => /buf.set(\2, lut(\1)); buf.set(\2 + 1, lut(\1 + 1));/
//@rewrite 2 /\*buf_ptr\.add\(curr\) = ([^;]+);/ => /buf.set(curr, \1);/
//@rewrite 1 /repr\.set_len\(([^;]*)\);/ => /assert(\1 == buf@.len());/
//@rewrite 1 /debug_assert_eq!\(curr, 0\);/ => /assert(curr == 0);/
//@rewrite 1 /Ok\(repr\)/ => /buf/
//@after `let digits_count = digit_count_i16(x);`
//@| let ghost a: nat = abs(x as int);
//@| let ghost neg: nat = neg1(x as int);
//@| let ghost mut g1: Seq<u8> = Seq::empty();
//@| let ghost mut g2: Seq<u8> = Seq::empty();
//@| let ghost mut gn: nat = 0;
//@| let ghost mut gc: nat = 0;
//@| proof { lemma_tbl(a); }
//@before `let mut n = if is_nonnegative {`
//@| proof { if x < 0 { lemma_neg_i16(x); } }
//@after `let mut curr = digits_count;`
//@| proof { lemma_inv_init(a, neg, digits_count as nat, buf@); }
//@replace `while n >= 10000 {`
//@| while n >= 10000
//@|     invariant writer_inv(a, neg, digits_count as nat, n as nat, curr as nat, buf@), digits_count <= 20,
//@|         buf@.len() == digits_count, curr <= digits_count,
//@|     decreases n,
//@| {
//@|     let ghost n0 = n;
//@|     let ghost buf0 = buf@;
//@|     proof {
//@|         lemma_inv_facts(a, neg, digits_count as nat, n as nat, curr as nat, buf@);
//@|         lemma_four(n as nat);
//@|     }
//@after `let d2 = (rem % 100) << 1;`
//@| proof { lemma_shl1(rem / 100); lemma_shl1(rem % 100); }
//@after `buf.set(curr + 2, lut(d2)); buf.set(curr + 2 + 1, lut(d2 + 1));`
//@| proof {
//@|     lemma_dec4(n0 as nat);
//@|     assert(d1 == 2 * (rem / 100) && d2 == 2 * (rem % 100));
//@|     assert(buf@[curr as int] == (48 + (n0 / 1000) % 10) as u8);
//@|     assert(buf@[curr + 1] == (48 + (n0 / 100) % 10) as u8);
//@|     assert(buf@[curr + 2] == (48 + (n0 / 10) % 10) as u8);
//@|     assert(buf@[curr + 3] == (48 + n0 % 10) as u8);
//@|     assert(buf@.subrange(curr as int, curr + 4) =~= dec_digits(n0 as nat, 4));
//@|     assert(buf@.subrange(curr + 4, digits_count as int) =~= buf0.subrange(curr + 4, digits_count as int));
//@|     lemma_loop_step(a, neg, digits_count as nat, n0 as nat, (curr + 4) as nat, buf0, buf@);
//@| }
//@after `if n >= 100 {`
//@| proof {
//@|     gn = n as nat; g1 = buf@;
//@|     lemma_inv_facts2(a, neg, digits_count as nat, n as nat, curr as nat, buf@); lemma_shl1(n % 100); l_c((n % 100) as nat);
//@| }
//@after[2/3] `buf.set(curr, lut(d1)); buf.set(curr + 1, lut(d1 + 1));`
//@| proof {
//@|     lemma_dec2(gn);
//@|     assert((gn % 100) / 10 == (gn / 10) % 10 && (gn % 100) % 10 == gn % 10);
//@|     assert(buf@.subrange(curr as int, curr + 2) =~= dec_digits(gn, 2));
//@|     assert(buf@.subrange(curr + 2, digits_count as int) =~= g1.subrange(curr + 2, digits_count as int));
//@|     lemma_step2(a, neg, digits_count as nat, gn, (curr + 2) as nat, g1, buf@);
//@| }
//@before `if n < 10 {`
//@| proof {
//@|     gn = n as nat; g1 = buf@; gc = curr as nat;
//@|     lemma_inv_facts2(a, neg, digits_count as nat, n as nat, curr as nat, buf@);
//@| }
//@after `buf.set(curr, (n as u8) + b'0');`
//@| proof {
//@|     lemma_dec1(gn);
//@|     assert(buf@.subrange(curr as int, curr + 1) =~= dec_digits(gn, 1));
//@| }
//@after `let d1 = n << 1;`
//@| proof { lemma_shl1(n); l_c(n as nat); }
//@after[3/3] `buf.set(curr, lut(d1)); buf.set(curr + 1, lut(d1 + 1));`
//@| proof {
//@|     lemma_dec2(gn);
//@|     assert((gn / 10) % 10 == gn / 10);
//@|     assert(buf@.subrange(curr as int, curr + 2) =~= dec_digits(gn, 2));
//@| }
//@before `if !is_nonnegative {`
//@| proof {
//@|     assert(buf@.subrange(gc as int, digits_count as int) =~= g1.subrange(gc as int, digits_count as int));
//@|     lemma_final(a, neg, digits_count as nat, gn, gc, g1, buf@, (gc - curr) as nat);
//@|     g2 = buf@;
//@| }
//@before `assert(curr == 0);`
//@| proof {
//@|     if neg == 1 {
//@|         assert(buf@.subrange(1, digits_count as int) =~= g2.subrange(1, digits_count as int));
//@|         assert(buf@ =~= seq![45u8] + buf@.subrange(1, digits_count as int));
//@|     } else {
//@|         assert(buf@ =~= buf@.subrange(0, digits_count as int));
//@|     }
//@| }
//@end

#[verifier::rlimit(80)]
//@macrofn into_repr from src/repr/num_to_repr.rs macro impl_NumToRepr_for_integers subst $t=u16,$u=u64 as into_repr_u16 self=x ret=Vec<u8>
//@    ensures r@ == dec_text(x as int),
//@rewrite 1 /let digits_count = DigitCount::digit_count\(x\);/ => /let digits_count = digit_count_u16(x);/
//@rewrite 1 /#\[allow\(unused_comparisons\)\]/ => //
//@rewrite 1 /\(!\(x as u64\)\)/ => /(!(#[verifier::truncate] (x as u64)))/
//@rewrite 1 /let mut repr = Repr::with_capacity\(([^;]*)\)\?;/ => /let mut buf: Vec<u8> = vec![0u8; \1]; assert(buf@.len() == digits_count);/
//@rewrite 1 /let buf_ptr = unsafe \{ repr\.as_slice_mut\(\)\.as_mut_ptr\(\) \};/ => //
//@rewrite 1 /let lut_ptr = DEC_DIGITS_LUT\.as_ptr\(\);/ => //
//@rewrite 4 /ptr::copy_nonoverlapping\(lut_ptr\.add\((\w+)\), buf_ptr\.add\(([^)]+)\), 2\);/ => /buf.set(\2, lut(\1)); buf.set(\2 + 1, lut(\1 + 1));/
//@rewrite 2 /\*buf_ptr\.add\(curr\) = ([^;]+);/ => /buf.set(curr, \1);/
//@rewrite 1 /repr\.set_len\(([^;]*)\);/ => /assert(\1 == buf@.len());/
//@rewrite 1 /debug_assert_eq!\(curr, 0\);/ => /assert(curr == 0);/
//@rewrite 1 /Ok\(repr\)/ => /buf/
//@after `let digits_count = digit_count_u16(x);`
//@| let ghost a: nat = abs(x as int);
//@| let ghost neg: nat = neg1(x as int);
//@| let ghost mut g1: Seq<u8> = Seq::empty();
//@| let ghost mut g2: Seq<u8> = Seq::empty();
//@| let ghost mut gn: nat = 0;
//@| let ghost mut gc: nat = 0;
//@| proof { lemma_tbl(a); }
//@before `let mut n = if is_nonnegative {`
//@| proof { }
//@after `let mut curr = digits_count;`
//@| proof { lemma_inv_init(a, neg, digits_count as nat, buf@); }
//@replace `while n >= 10000 {`
//@| while n >= 10000
//@|     invariant writer_inv(a, neg, digits_count as nat, n as nat, curr as nat, buf@), digits_count <= 20,
//@|         buf@.len() == digits_count, curr <= digits_count,
//@|     decreases n,
//@| {
//@|     let ghost n0 = n;
//@|     let ghost buf0 = buf@;
//@|     proof {
//@|         lemma_inv_facts(a, neg, digits_count as nat, n as nat, curr as nat, buf@);
//@|         lemma_four(n as nat);
//@|     }
//@after `let d2 = (rem % 100) << 1;`
//@| proof { lemma_shl1(rem / 100); lemma_shl1(rem % 100); }
//@after `buf.set(curr + 2, lut(d2)); buf.set(curr + 2 + 1, lut(d2 + 1));`
//@| proof {
//@|     lemma_dec4(n0 as nat);
//@|     assert(d1 == 2 * (rem / 100) && d2 == 2 * (rem % 100));
//@|     assert(buf@[curr as int] == (48 + (n0 / 1000) % 10) as u8);
//@|     assert(buf@[curr + 1] == (48 + (n0 / 100) % 10) as u8);
//@|     assert(buf@[curr + 2] == (48 + (n0 / 10) % 10) as u8);
//@|     assert(buf@[curr + 3] == (48 + n0 % 10) as u8);
//@|     assert(buf@.subrange(curr as int, curr + 4) =~= dec_digits(n0 as nat, 4));
//@|     assert(buf@.subrange(curr + 4, digits_count as int) =~= buf0.subrange(curr + 4, digits_count as int));
//@|     lemma_loop_step(a, neg, digits_count as nat, n0 as nat, (curr + 4) as nat, buf0, buf@);
//@| }
//@after `if n >= 100 {`
//@| proof {
//@|     gn = n as nat; g1 = buf@;
//@|     lemma_inv_facts2(a, neg, digits_count as nat, n as nat, curr as nat, buf@); lemma_shl1(n % 100); l_c((n % 100) as nat);
//@| }
//@after[2/3] `buf.set(curr, lut(d1)); buf.set(curr + 1, lut(d1 + 1));`
//@| proof {
//@|     lemma_dec2(gn);
//@|     assert((gn % 100) / 10 == (gn / 10) % 10 && (gn % 100) % 10 == gn % 10);
//@|     assert(buf@.subrange(curr as int, curr + 2) =~= dec_digits(gn, 2));
//@|     assert(buf@.subrange(curr + 2, digits_count as int) =~= g1.subrange(curr + 2, digits_count as int));
//@|     lemma_step2(a, neg, digits_count as nat, gn, (curr + 2) as nat, g1, buf@);
//@| }
//@before `if n < 10 {`
//@| proof {
//@|     gn = n as nat; g1 = buf@; gc = curr as nat;
//@|     lemma_inv_facts2(a, neg, digits_count as nat, n as nat, curr as nat, buf@);
//@| }
//@after `buf.set(curr, (n as u8) + b'0');`
//@| proof {
//@|     lemma_dec1(gn);
//@|     assert(buf@.subrange(curr as int, curr + 1) =~= dec_digits(gn, 1));
//@| }
//@after `let d1 = n << 1;`
//@| proof { lemma_shl1(n); l_c(n as nat); }
//@after[3/3] `buf.set(curr, lut(d1)); buf.set(curr + 1, lut(d1 + 1));`
//@| proof {
//@|     lemma_dec2(gn);
//@|     assert((gn / 10) % 10 == gn / 10);
//@|     assert(buf@.subrange(curr as int, curr + 2) =~= dec_digits(gn, 2));
//@| }
//@before `if !is_nonnegative {`
//@| proof {
//@|     assert(buf@.subrange(gc as int, digits_count as int) =~= g1.subrange(gc as int, digits_count as int));
//@|     lemma_final(a, neg, digits_count as nat, gn, gc, g1, buf@, (gc - curr) as nat);
//@|     g2 = buf@;
//@| }
//@before `assert(curr == 0);`
//@| proof {
//@|     if neg == 1 {
//@|         assert(buf@.subrange(1, digits_count as int) =~= g2.subrange(1, digits_count as int));
//@|         assert(buf@ =~= seq![45u8] + buf@.subrange(1, digits_count as int));
//@|     } else {
//@|         assert(buf@ =~= buf@.subrange(0, digits_count as int));
//@|     }
//@| }
//@end

#[verifier::rlimit(80)]
//@macrofn into_repr from src/repr/num_to_repr.rs macro impl_NumToRepr_for_integers subst $t=i32,$u=u64 as into_repr_i32 self=x ret=Vec<u8>
//@    ensures r@ == dec_text(x as int),
//@rewrite 1 /let digits_count = DigitCount::digit_count\(x\);/ => /let digits_count = digit_count_i32(x);/
//@rewrite 1 /#\[allow\(unused_comparisons\)\]/ => //
//@rewrite 1 /\(!\(x as u64\)\)/ => /(!(#[verifier::truncate] (x as u64)))/
//@rewrite 1 /let mut repr = Repr::with_capacity\(([^;]*)\)\?;/ => /let mut buf: Vec<u8> = vec![0u8; \1]; assert(buf@.len() == digits_count);/
//@rewrite 1 /let buf_ptr = unsafe \{ repr\.as_slice_mut\(\)\.as_mut_ptr\(\) \};/ => //
//@rewrite 1 /let lut_ptr = DEC_DIGITS_LUT\.as_ptr\(\);/ => //
//@rewrite 4 /ptr::copy_nonoverlapping\(lut_ptr\.add\((\w+)\), buf_ptr\.add\(([^)]+)\), 2\);/ => /buf.set(\2, lut(\1)); buf.set(\2 + 1, lut(\1 + 1));/
//@rewrite 2 /\*buf_ptr\.add\(curr\) = ([^;]+);/ => /buf.set(curr, \1);/
//@rewrite 1 /repr\.set_len\(([^;]*)\);/ => /assert(\1 == buf@.len());/
//@rewrite 1 /debug_assert_eq!\(curr, 0\);/ => /assert(curr == 0);/
//@rewrite 1 /Ok\(repr\)/ => /buf/
//@after `let digits_count = digit_count_i32(x);`
//@| let ghost a: nat = abs(x as int);
//@| let ghost neg: nat = neg1(x as int);
//@| let ghost mut g1: Seq<u8> = Seq::empty();
//@| let ghost mut g2: Seq<u8> = Seq::empty();
//@| let ghost mut gn: nat = 0;
//@| let ghost mut gc: nat = 0;
//@| proof { lemma_tbl(a); }
//@before `let mut n = if is_nonnegative {`
//@| proof { if x < 0 { lemma_neg_i32(x); } }
//@after `let mut curr = digits_count;`
//@| proof { lemma_inv_init(a, neg, digits_count as nat, buf@); }
//@replace `while n >= 10000 {`
//@| while n >= 10000
//@|     invariant writer_inv(a, neg, digits_count as nat, n as nat, curr as nat, buf@), digits_count <= 20,
//@|         buf@.len() == digits_count, curr <= digits_count,
//@|     decreases n,
//@| {
//@|     let ghost n0 = n;
//@|     let ghost buf0 = buf@;
//@|     proof {
//@|         lemma_inv_facts(a, neg, digits_count as nat, n as nat, curr as nat, buf@);
//@|         lemma_four(n as nat);
//@|     }
//@after `let d2 = (rem % 100) << 1;`
//@| proof { lemma_shl1(rem / 100); lemma_shl1(rem % 100); }
//@after `buf.set(curr + 2, lut(d2)); buf.set(curr + 2 + 1, lut(d2 + 1));`
//@| proof {
//@|     lemma_dec4(n0 as nat);
//@|     assert(d1 == 2 * (rem / 100) && d2 == 2 * (rem % 100));
//@|     assert(buf@[curr as int] == (48 + (n0 / 1000) % 10) as u8);
//@|     assert(buf@[curr + 1] == (48 + (n0 / 100) % 10) as u8);
//@|     assert(buf@[curr + 2] == (48 + (n0 / 10) % 10) as u8);
//@|     assert(buf@[curr + 3] == (48 + n0 % 10) as u8);
//@|     assert(buf@.subrange(curr as int, curr + 4) =~= dec_digits(n0 as nat, 4));
//@|     assert(buf@.subrange(curr + 4, digits_count as int) =~= buf0.subrange(curr + 4, digits_count as int));
//@|     lemma_loop_step(a, neg, digits_count as nat, n0 as nat, (curr + 4) as nat, buf0, buf@);
//@| }
//@after `if n >= 100 {`
//@| proof {
//@|     gn = n as nat; g1 = buf@;
//@|     lemma_inv_facts2(a, neg, digits_count as nat, n as nat, curr as nat, buf@); lemma_shl1(n % 100); l_c((n % 100) as nat);
//@| }
//@after[2/3] `buf.set(curr, lut(d1)); buf.set(curr + 1, lut(d1 + 1));`
//@| proof {
//@|     lemma_dec2(gn);
//@|     assert((gn % 100) / 10 == (gn / 10) % 10 && (gn % 100) % 10 == gn % 10);
//@|     assert(buf@.subrange(curr as int, curr + 2) =~= dec_digits(gn, 2));
//@|     assert(buf@.subrange(curr + 2, digits_count as int) =~= g1.subrange(curr + 2, digits_count as int));
//@|     lemma_step2(a, neg, digits_count as nat, gn, (curr + 2) as nat, g1, buf@);
//@| }
//@before `if n < 10 {`
//@| proof {
//@|     gn = n as nat; g1 = buf@; gc = curr as nat;
//@|     lemma_inv_facts2(a, neg, digits_count as nat, n as nat, curr as nat, buf@);
//@| }
//@after `buf.set(curr, (n as u8) + b'0');`
//@| proof {
//@|     lemma_dec1(gn);
//@|     assert(buf@.subrange(curr as int, curr + 1) =~= dec_digits(gn, 1));
//@| }
//@after `let d1 = n << 1;`
//@| proof { lemma_shl1(n); l_c(n as nat); }
//@after[3/3] `buf.set(curr, lut(d1)); buf.set(curr + 1, lut(d1 + 1));`
//@| proof {
//@|     lemma_dec2(gn);
//@|     assert((gn / 10) % 10 == gn / 10);
//@|     assert(buf@.subrange(curr as int, curr + 2) =~= dec_digits(gn, 2));
//@| }
//@before `if !is_nonnegative {`
//@| proof {
//@|     assert(buf@.subrange(gc as int, digits_count as int) =~= g1.subrange(gc as int, digits_count as int));
//@|     lemma_final(a, neg, digits_count as nat, gn, gc, g1, buf@, (gc - curr) as nat);
//@|     g2 = buf@;
//@| }
//@before `assert(curr == 0);`
//@| proof {
//@|     if neg == 1 {
//@|         assert(buf@.subrange(1, digits_count as int) =~= g2.subrange(1, digits_count as int));
//@|         assert(buf@ =~= seq![45u8] + buf@.subrange(1, digits_count as int));
//@|     } else {
//@|         assert(buf@ =~= buf@.subrange(0, digits_count as int));
//@|     }
//@| }
//@end

#[verifier::rlimit(80)]
//@macrofn into_repr from src/repr/num_to_repr.rs macro impl_NumToRepr_for_integers subst $t=u32,$u=u64 as into_repr_u32 self=x ret=Vec<u8>
//@    ensures r@ == dec_text(x as int),
//@rewrite 1 /let digits_count = DigitCount::digit_count\(x\);/ => /let digits_count = digit_count_u32(x);/
//@rewrite 1 /#\[allow\(unused_comparisons\)\]/ => //
//@rewrite 1 /\(!\(x as u64\)\)/ => /(!(#[verifier::truncate] (x as u64)))/
//@rewrite 1 /let mut repr = Repr::with_capacity\(([^;]*)\)\?;/ => /let mut buf: Vec<u8> = vec![0u8; \1]; assert(buf@.len() == digits_count);/
//@rewrite 1 /let buf_ptr = unsafe \{ repr\.as_slice_mut\(\)\.as_mut_ptr\(\) \};/ => //
//@rewrite 1 /let lut_ptr = DEC_DIGITS_LUT\.as_ptr\(\);/ => //
//@rewrite 4 /ptr::copy_nonoverlapping\(lut_ptr\.add\((\w+)\), buf_ptr\.add\(([^)]+)\), 2\);/ => /buf.set(\2, lut(\1)); buf.set(\2 + 1, lut(\1 + 1));/
//@rewrite 2 /\*buf_ptr\.add\(curr\) = ([^;]+);/ => /buf.set(curr, \1);/
//@rewrite 1 /repr\.set_len\(([^;]*)\);/ => /assert(\1 == buf@.len());/
//@rewrite 1 /debug_assert_eq!\(curr, 0\);/ => /assert(curr == 0);/
//@rewrite 1 /Ok\(repr\)/ => /buf/
//@after `let digits_count = digit_count_u32(x);`
//@| let ghost a: nat = abs(x as int);
//@| let ghost neg: nat = neg1(x as int);
//@| let ghost mut g1: Seq<u8> = Seq::empty();
//@| let ghost mut g2: Seq<u8> = Seq::empty();
//@| let ghost mut gn: nat = 0;
//@| let ghost mut gc: nat = 0;
//@| proof { lemma_tbl(a); }
//@before `let mut n = if is_nonnegative {`
//@| proof { }
//@after `let mut curr = digits_count;`
//@| proof { lemma_inv_init(a, neg, digits_count as nat, buf@); }
//@replace `while n >= 10000 {`
//@| while n >= 10000
//@|     invariant writer_inv(a, neg, digits_count as nat, n as nat, curr as nat, buf@), digits_count <= 20,
//@|         buf@.len() == digits_count, curr <= digits_count,
//@|     decreases n,
//@| {
//@|     let ghost n0 = n;
//@|     let ghost buf0 = buf@;
//@|     proof {
//@|         lemma_inv_facts(a, neg, digits_count as nat, n as nat, curr as nat, buf@);
//@|         lemma_four(n as nat);
//@|     }
//@after `let d2 = (rem % 100) << 1;`
//@| proof { lemma_shl1(rem / 100); lemma_shl1(rem % 100); }
//@after `buf.set(curr + 2, lut(d2)); buf.set(curr + 2 + 1, lut(d2 + 1));`
//@| proof {
//@|     lemma_dec4(n0 as nat);
//@|     assert(d1 == 2 * (rem / 100) && d2 == 2 * (rem % 100));
//@|     assert(buf@[curr as int] == (48 + (n0 / 1000) % 10) as u8);
//@|     assert(buf@[curr + 1] == (48 + (n0 / 100) % 10) as u8);
//@|     assert(buf@[curr + 2] == (48 + (n0 / 10) % 10) as u8);
//@|     assert(buf@[curr + 3] == (48 + n0 % 10) as u8);
//@|     assert(buf@.subrange(curr as int, curr + 4) =~= dec_digits(n0 as nat, 4));
//@|     assert(buf@.subrange(curr + 4, digits_count as int) =~= buf0.subrange(curr + 4, digits_count as int));
//@|     lemma_loop_step(a, neg, digits_count as nat, n0 as nat, (curr + 4) as nat, buf0, buf@);
//@| }
//@after `if n >= 100 {`
//@| proof {
//@|     gn = n as nat; g1 = buf@;
//@|     lemma_inv_facts2(a, neg, digits_count as nat, n as nat, curr as nat, buf@); lemma_shl1(n % 100); l_c((n % 100) as nat);
//@| }
//@after[2/3] `buf.set(curr, lut(d1)); buf.set(curr + 1, lut(d1 + 1));`
//@| proof {
//@|     lemma_dec2(gn);
//@|     assert((gn % 100) / 10 == (gn / 10) % 10 && (gn % 100) % 10 == gn % 10);
//@|     assert(buf@.subrange(curr as int, curr + 2) =~= dec_digits(gn, 2));
//@|     assert(buf@.subrange(curr + 2, digits_count as int) =~= g1.subrange(curr + 2, digits_count as int));
//@|     lemma_step2(a, neg, digits_count as nat, gn, (curr + 2) as nat, g1, buf@);
//@| }
//@before `if n < 10 {`
//@| proof {
//@|     gn = n as nat; g1 = buf@; gc = curr as nat;
//@|     lemma_inv_facts2(a, neg, digits_count as nat, n as nat, curr as nat, buf@);
//@| }
//@after `buf.set(curr, (n as u8) + b'0');`
//@| proof {
//@|     lemma_dec1(gn);
//@|     assert(buf@.subrange(curr as int, curr + 1) =~= dec_digits(gn, 1));
//@| }
//@after `let d1 = n << 1;`
//@| proof { lemma_shl1(n); l_c(n as nat); }
//@after[3/3] `buf.set(curr, lut(d1)); buf.set(curr + 1, lut(d1 + 1));`
//@| proof {
//@|     lemma_dec2(gn);
//@|     assert((gn / 10) % 10 == gn / 10);
//@|     assert(buf@.subrange(curr as int, curr + 2) =~= dec_digits(gn, 2));
//@| }
//@before `if !is_nonnegative {`
//@| proof {
//@|     assert(buf@.subrange(gc as int, digits_count as int) =~= g1.subrange(gc as int, digits_count as int));
//@|     lemma_final(a, neg, digits_count as nat, gn, gc, g1, buf@, (gc - curr) as nat);
//@|     g2 = buf@;
//@| }
//@before `assert(curr == 0);`
//@| proof {
//@|     if neg == 1 {
//@|         assert(buf@.subrange(1, digits_count as int) =~= g2.subrange(1, digits_count as int));
//@|         assert(buf@ =~= seq![45u8] + buf@.subrange(1, digits_count as int));
//@|     } else {
//@|         assert(buf@ =~= buf@.subrange(0, digits_count as int));
//@|     }
//@| }
//@end

#[verifier::rlimit(80)]
//@macrofn into_repr from src/repr/num_to_repr.rs macro impl_NumToRepr_for_integers subst $t=i64,$u=u64 as into_repr_i64 self=x ret=Vec<u8>
//@    ensures r@ == dec_text(x as int),
//@rewrite 1 /let digits_count = DigitCount::digit_count\(x\);/ => /let digits_count = digit_count_i64(x);/
//@rewrite 1 /#\[allow\(unused_comparisons\)\]/ => //
//@rewrite 1 /\(!\(x as u64\)\)/ => /(!(#[verifier::truncate] (x as u64)))/
//@rewrite 1 /let mut repr = Repr::with_capacity\(([^;]*)\)\?;/ => /let mut buf: Vec<u8> = vec![0u8; \1]; assert(buf@.len() == digits_count);/
//@rewrite 1 /let buf_ptr = unsafe \{ repr\.as_slice_mut\(\)\.as_mut_ptr\(\) \};/ => //
//@rewrite 1 /let lut_ptr = DEC_DIGITS_LUT\.as_ptr\(\);/ => //
//@rewrite 4 /ptr::copy_nonoverlapping\(lut_ptr\.add\((\w+)\), buf_ptr\.add\(([^)]+)\), 2\);/ => /buf.set(\2, lut(\1)); buf.set(\2 + 1, lut(\1 + 1));/
//@rewrite 2 /\*buf_ptr\.add\(curr\) = ([^;]+);/ => /buf.set(curr, \1);/
//@rewrite 1 /repr\.set_len\(([^;]*)\);/ => /assert(\1 == buf@.len());/
//@rewrite 1 /debug_assert_eq!\(curr, 0\);/ => /assert(curr == 0);/
//@rewrite 1 /Ok\(repr\)/ => /buf/
//@after `let digits_count = digit_count_i64(x);`
//@| let ghost a: nat = abs(x as int);
//@| let ghost neg: nat = neg1(x as int);
//@| let ghost mut g1: Seq<u8> = Seq::empty();
//@| let ghost mut g2: Seq<u8> = Seq::empty();
//@| let ghost mut gn: nat = 0;
//@| let ghost mut gc: nat = 0;
//@| proof { lemma_tbl(a); }
//@before `let mut n = if is_nonnegative {`
//@| proof { if x < 0 { lemma_neg_i64(x); } }
//@after `let mut curr = digits_count;`
//@| proof { lemma_inv_init(a, neg, digits_count as nat, buf@); }
//@replace `while n >= 10000 {`
//@| while n >= 10000
//@|     invariant writer_inv(a, neg, digits_count as nat, n as nat, curr as nat, buf@), digits_count <= 20,
//@|         buf@.len() == digits_count, curr <= digits_count,
//@|     decreases n,
//@| {
//@|     let ghost n0 = n;
//@|     let ghost buf0 = buf@;
//@|     proof {
//@|         lemma_inv_facts(a, neg, digits_count as nat, n as nat, curr as nat, buf@);
//@|         lemma_four(n as nat);
//@|     }
//@after `let d2 = (rem % 100) << 1;`
//@| proof { lemma_shl1(rem / 100); lemma_shl1(rem % 100); }
//@after `buf.set(curr + 2, lut(d2)); buf.set(curr + 2 + 1, lut(d2 + 1));`
//@| proof {
//@|     lemma_dec4(n0 as nat);
//@|     assert(d1 == 2 * (rem / 100) && d2 == 2 * (rem % 100));
//@|     assert(buf@[curr as int] == (48 + (n0 / 1000) % 10) as u8);
//@|     assert(buf@[curr + 1] == (48 + (n0 / 100) % 10) as u8);
//@|     assert(buf@[curr + 2] == (48 + (n0 / 10) % 10) as u8);
//@|     assert(buf@[curr + 3] == (48 + n0 % 10) as u8);
//@|     assert(buf@.subrange(curr as int, curr + 4) =~= dec_digits(n0 as nat, 4));
//@|     assert(buf@.subrange(curr + 4, digits_count as int) =~= buf0.subrange(curr + 4, digits_count as int));
//@|     lemma_loop_step(a, neg, digits_count as nat, n0 as nat, (curr + 4) as nat, buf0, buf@);
//@| }
//@after `if n >= 100 {`
//@| proof {
//@|     gn = n as nat; g1 = buf@;
//@|     lemma_inv_facts2(a, neg, digits_count as nat, n as nat, curr as nat, buf@); lemma_shl1(n % 100); l_c((n % 100) as nat);
//@| }
//@after[2/3] `buf.set(curr, lut(d1)); buf.set(curr + 1, lut(d1 + 1));`
//@| proof {
//@|     lemma_dec2(gn);
//@|     assert((gn % 100) / 10 == (gn / 10) % 10 && (gn % 100) % 10 == gn % 10);
//@|     assert(buf@.subrange(curr as int, curr + 2) =~= dec_digits(gn, 2));
//@|     assert(buf@.subrange(curr + 2, digits_count as int) =~= g1.subrange(curr + 2, digits_count as int));
//@|     lemma_step2(a, neg, digits_count as nat, gn, (curr + 2) as nat, g1, buf@);
//@| }
//@before `if n < 10 {`
//@| proof {
//@|     gn = n as nat; g1 = buf@; gc = curr as nat;
//@|     lemma_inv_facts2(a, neg, digits_count as nat, n as nat, curr as nat, buf@);
//@| }
//@after `buf.set(curr, (n as u8) + b'0');`
//@| proof {
//@|     lemma_dec1(gn);
//@|     assert(buf@.subrange(curr as int, curr + 1) =~= dec_digits(gn, 1));
//@| }
//@after `let d1 = n << 1;`
//@| proof { lemma_shl1(n); l_c(n as nat); }
//@after[3/3] `buf.set(curr, lut(d1)); buf.set(curr + 1, lut(d1 + 1));`
//@| proof {
//@|     lemma_dec2(gn);
//@|     assert((gn / 10) % 10 == gn / 10);
//@|     assert(buf@.subrange(curr as int, curr + 2) =~= dec_digits(gn, 2));
//@| }
//@before `if !is_nonnegative {`
//@| proof {
//@|     assert(buf@.subrange(gc as int, digits_count as int) =~= g1.subrange(gc as int, digits_count as int));
//@|     lemma_final(a, neg, digits_count as nat, gn, gc, g1, buf@, (gc - curr) as nat);
//@|     g2 = buf@;
//@| }
//@before `assert(curr == 0);`
//@| proof {
//@|     if neg == 1 {
//@|         assert(buf@.subrange(1, digits_count as int) =~= g2.subrange(1, digits_count as int));
//@|         assert(buf@ =~= seq![45u8] + buf@.subrange(1, digits_count as int));
//@|     } else {
//@|         assert(buf@ =~= buf@.subrange(0, digits_count as int));
//@|     }
//@| }
//@end

#[verifier::rlimit(80)]
//@macrofn into_repr from src/repr/num_to_repr.rs macro impl_NumToRepr_for_integers subst $t=u64,$u=u64 as into_repr_u64 self=x ret=Vec<u8>
//@    ensures r@ == dec_text(x as int),
//@rewrite 1 /let digits_count = DigitCount::digit_count\(x\);/ => /let digits_count = digit_count_u64(x);/
//@rewrite 1 /#\[allow\(unused_comparisons\)\]/ => //
//@rewrite 1 /\(!\(x as u64\)\)/ => /(!(#[verifier::truncate] (x as u64)))/
//@rewrite 1 /let mut repr = Repr::with_capacity\(([^;]*)\)\?;/ => /let mut buf: Vec<u8> = vec![0u8; \1]; assert(buf@.len() == digits_count);/
//@rewrite 1 /let buf_ptr = unsafe \{ repr\.as_slice_mut\(\)\.as_mut_ptr\(\) \};/ => //
//@rewrite 1 /let lut_ptr = DEC_DIGITS_LUT\.as_ptr\(\);/ => //
//@rewrite 4 /ptr::copy_nonoverlapping\(lut_ptr\.add\((\w+)\), buf_ptr\.add\(([^)]+)\), 2\);/ => /buf.set(\2, lut(\1)); buf.set(\2 + 1, lut(\1 + 1));/
//@rewrite 2 /\*buf_ptr\.add\(curr\) = ([^;]+);/ => /buf.set(curr, \1);/
//@rewrite 1 /repr\.set_len\(([^;]*)\);/ => /assert(\1 == buf@.len());/
//@rewrite 1 /debug_assert_eq!\(curr, 0\);/ => /assert(curr == 0);/
//@rewrite 1 /Ok\(repr\)/ => /buf/
//@after `let digits_count = digit_count_u64(x);`
//@| let ghost a: nat = abs(x as int);
//@| let ghost neg: nat = neg1(x as int);
//@| let ghost mut g1: Seq<u8> = Seq::empty();
//@| let ghost mut g2: Seq<u8> = Seq::empty();
//@| let ghost mut gn: nat = 0;
//@| let ghost mut gc: nat = 0;
//@| proof { lemma_tbl(a); }
//@before `let mut n = if is_nonnegative {`
//@| proof { }
//@after `let mut curr = digits_count;`
//@| proof { lemma_inv_init(a, neg, digits_count as nat, buf@); }
//@replace `while n >= 10000 {`
//@| while n >= 10000
//@|     invariant writer_inv(a, neg, digits_count as nat, n as nat, curr as nat, buf@), digits_count <= 20,
//@|         buf@.len() == digits_count, curr <= digits_count,
//@|     decreases n,
//@| {
//@|     let ghost n0 = n;
//@|     let ghost buf0 = buf@;
//@|     proof {
//@|         lemma_inv_facts(a, neg, digits_count as nat, n as nat, curr as nat, buf@);
//@|         lemma_four(n as nat);
//@|     }
//@after `let d2 = (rem % 100) << 1;`
//@| proof { lemma_shl1(rem / 100); lemma_shl1(rem % 100); }
//@after `buf.set(curr + 2, lut(d2)); buf.set(curr + 2 + 1, lut(d2 + 1));`
//@| proof {
//@|     lemma_dec4(n0 as nat);
//@|     assert(d1 == 2 * (rem / 100) && d2 == 2 * (rem % 100));
//@|     assert(buf@[curr as int] == (48 + (n0 / 1000) % 10) as u8);
//@|     assert(buf@[curr + 1] == (48 + (n0 / 100) % 10) as u8);
//@|     assert(buf@[curr + 2] == (48 + (n0 / 10) % 10) as u8);
//@|     assert(buf@[curr + 3] == (48 + n0 % 10) as u8);
//@|     assert(buf@.subrange(curr as int, curr + 4) =~= dec_digits(n0 as nat, 4));
//@|     assert(buf@.subrange(curr + 4, digits_count as int) =~= buf0.subrange(curr + 4, digits_count as int));
//@|     lemma_loop_step(a, neg, digits_count as nat, n0 as nat, (curr + 4) as nat, buf0, buf@);
//@| }
//@after `if n >= 100 {`
//@| proof {
//@|     gn = n as nat; g1 = buf@;
//@|     lemma_inv_facts2(a, neg, digits_count as nat, n as nat, curr as nat, buf@); lemma_shl1(n % 100); l_c((n % 100) as nat);
//@| }
//@after[2/3] `buf.set(curr, lut(d1)); buf.set(curr + 1, lut(d1 + 1));`
//@| proof {
//@|     lemma_dec2(gn);
//@|     assert((gn % 100) / 10 == (gn / 10) % 10 && (gn % 100) % 10 == gn % 10);
//@|     assert(buf@.subrange(curr as int, curr + 2) =~= dec_digits(gn, 2));
//@|     assert(buf@.subrange(curr + 2, digits_count as int) =~= g1.subrange(curr + 2, digits_count as int));
//@|     lemma_step2(a, neg, digits_count as nat, gn, (curr + 2) as nat, g1, buf@);
//@| }
//@before `if n < 10 {`
//@| proof {
//@|     gn = n as nat; g1 = buf@; gc = curr as nat;
//@|     lemma_inv_facts2(a, neg, digits_count as nat, n as nat, curr as nat, buf@);
//@| }
//@after `buf.set(curr, (n as u8) + b'0');`
//@| proof {
//@|     lemma_dec1(gn);
//@|     assert(buf@.subrange(curr as int, curr + 1) =~= dec_digits(gn, 1));
//@| }
//@after `let d1 = n << 1;`
//@| proof { lemma_shl1(n); l_c(n as nat); }
//@after[3/3] `buf.set(curr, lut(d1)); buf.set(curr + 1, lut(d1 + 1));`
//@| proof {
//@|     lemma_dec2(gn);
//@|     assert((gn / 10) % 10 == gn / 10);
//@|     assert(buf@.subrange(curr as int, curr + 2) =~= dec_digits(gn, 2));
//@| }
//@before `if !is_nonnegative {`
//@| proof {
//@|     assert(buf@.subrange(gc as int, digits_count as int) =~= g1.subrange(gc as int, digits_count as int));
//@|     lemma_final(a, neg, digits_count as nat, gn, gc, g1, buf@, (gc - curr) as nat);
//@|     g2 = buf@;
//@| }
//@before `assert(curr == 0);`
//@| proof {
//@|     if neg == 1 {
//@|         assert(buf@.subrange(1, digits_count as int) =~= g2.subrange(1, digits_count as int));
//@|         assert(buf@ =~= seq![45u8] + buf@.subrange(1, digits_count as int));
//@|     } else {
//@|         assert(buf@ =~= buf@.subrange(0, digits_count as int));
//@|     }
//@| }
//@end

#[verifier::rlimit(80)]
//@macrofn into_repr from src/repr/num_to_repr.rs macro impl_NumToRepr_for_integers subst $t=isize,$u=u64 as into_repr_isize self=x ret=Vec<u8>
//@    ensures r@ == dec_text(x as int),
//@rewrite 1 /let digits_count = DigitCount::digit_count\(x\);/ => /let digits_count = digit_count_isize(x);/
//@rewrite 1 /#\[allow\(unused_comparisons\)\]/ => //
//@rewrite 1 /\(!\(x as u64\)\)/ => /(!(#[verifier::truncate] (x as u64)))/
//@rewrite 1 /let mut repr = Repr::with_capacity\(([^;]*)\)\?;/ => /let mut buf: Vec<u8> = vec![0u8; \1]; assert(buf@.len() == digits_count);/
//@rewrite 1 /let buf_ptr = unsafe \{ repr\.as_slice_mut\(\)\.as_mut_ptr\(\) \};/ => //
//@rewrite 1 /let lut_ptr = DEC_DIGITS_LUT\.as_ptr\(\);/ => //
//@rewrite 4 /ptr::copy_nonoverlapping\(lut_ptr\.add\((\w+)\), buf_ptr\.add\(([^)]+)\), 2\);/ => /buf.set(\2, lut(\1)); buf.set(\2 + 1, lut(\1 + 1));/
//@rewrite 2 /\*buf_ptr\.add\(curr\) = ([^;]+);/ => /buf.set(curr, \1);/
//@rewrite 1 /repr\.set_len\(([^;]*)\);/ => /assert(\1 == buf@.len());/
//@rewrite 1 /debug_assert_eq!\(curr, 0\);/ => /assert(curr == 0);/
//@rewrite 1 /Ok\(repr\)/ => /buf/
//@after `let digits_count = digit_count_isize(x);`
//@| let ghost a: nat = abs(x as int);
//@| let ghost neg: nat = neg1(x as int);
//@| let ghost mut g1: Seq<u8> = Seq::empty();
//@| let ghost mut g2: Seq<u8> = Seq::empty();
//@| let ghost mut gn: nat = 0;
//@| let ghost mut gc: nat = 0;
//@| proof { lemma_tbl(a); }
//@before `let mut n = if is_nonnegative {`
//@| proof { if x < 0 { lemma_neg_isize(x); } }
//@after `let mut curr = digits_count;`
//@| proof { lemma_inv_init(a, neg, digits_count as nat, buf@); }
//@replace `while n >= 10000 {`
//@| while n >= 10000
//@|     invariant writer_inv(a, neg, digits_count as nat, n as nat, curr as nat, buf@), digits_count <= 20,
//@|         buf@.len() == digits_count, curr <= digits_count,
//@|     decreases n,
//@| {
//@|     let ghost n0 = n;
//@|     let ghost buf0 = buf@;
//@|     proof {
//@|         lemma_inv_facts(a, neg, digits_count as nat, n as nat, curr as nat, buf@);
//@|         lemma_four(n as nat);
//@|     }
//@after `let d2 = (rem % 100) << 1;`
//@| proof { lemma_shl1(rem / 100); lemma_shl1(rem % 100); }
//@after `buf.set(curr + 2, lut(d2)); buf.set(curr + 2 + 1, lut(d2 + 1));`
//@| proof {
//@|     lemma_dec4(n0 as nat);
//@|     assert(d1 == 2 * (rem / 100) && d2 == 2 * (rem % 100));
//@|     assert(buf@[curr as int] == (48 + (n0 / 1000) % 10) as u8);
//@|     assert(buf@[curr + 1] == (48 + (n0 / 100) % 10) as u8);
//@|     assert(buf@[curr + 2] == (48 + (n0 / 10) % 10) as u8);
//@|     assert(buf@[curr + 3] == (48 + n0 % 10) as u8);
//@|     assert(buf@.subrange(curr as int, curr + 4) =~= dec_digits(n0 as nat, 4));
//@|     assert(buf@.subrange(curr + 4, digits_count as int) =~= buf0.subrange(curr + 4, digits_count as int));
//@|     lemma_loop_step(a, neg, digits_count as nat, n0 as nat, (curr + 4) as nat, buf0, buf@);
//@| }
//@after `if n >= 100 {`
//@| proof {
//@|     gn = n as nat; g1 = buf@;
//@|     lemma_inv_facts2(a, neg, digits_count as nat, n as nat, curr as nat, buf@); lemma_shl1(n % 100); l_c((n % 100) as nat);
//@| }
//@after[2/3] `buf.set(curr, lut(d1)); buf.set(curr + 1, lut(d1 + 1));`
//@| proof {
//@|     lemma_dec2(gn);
//@|     assert((gn % 100) / 10 == (gn / 10) % 10 && (gn % 100) % 10 == gn % 10);
//@|     assert(buf@.subrange(curr as int, curr + 2) =~= dec_digits(gn, 2));
//@|     assert(buf@.subrange(curr + 2, digits_count as int) =~= g1.subrange(curr + 2, digits_count as int));
//@|     lemma_step2(a, neg, digits_count as nat, gn, (curr + 2) as nat, g1, buf@);
//@| }
//@before `if n < 10 {`
//@| proof {
//@|     gn = n as nat; g1 = buf@; gc = curr as nat;
//@|     lemma_inv_facts2(a, neg, digits_count as nat, n as nat, curr as nat, buf@);
//@| }
//@after `buf.set(curr, (n as u8) + b'0');`
//@| proof {
//@|     lemma_dec1(gn);
//@|     assert(buf@.subrange(curr as int, curr + 1) =~= dec_digits(gn, 1));
//@| }
//@after `let d1 = n << 1;`
//@| proof { lemma_shl1(n); l_c(n as nat); }
//@after[3/3] `buf.set(curr, lut(d1)); buf.set(curr + 1, lut(d1 + 1));`
//@| proof {
//@|     lemma_dec2(gn);
//@|     assert((gn / 10) % 10 == gn / 10);
//@|     assert(buf@.subrange(curr as int, curr + 2) =~= dec_digits(gn, 2));
//@| }
//@before `if !is_nonnegative {`
//@| proof {
//@|     assert(buf@.subrange(gc as int, digits_count as int) =~= g1.subrange(gc as int, digits_count as int));
//@|     lemma_final(a, neg, digits_count as nat, gn, gc, g1, buf@, (gc - curr) as nat);
//@|     g2 = buf@;
//@| }
//@before `assert(curr == 0);`
//@| proof {
//@|     if neg == 1 {
//@|         assert(buf@.subrange(1, digits_count as int) =~= g2.subrange(1, digits_count as int));
//@|         assert(buf@ =~= seq![45u8] + buf@.subrange(1, digits_count as int));
//@|     } else {
//@|         assert(buf@ =~= buf@.subrange(0, digits_count as int));
//@|     }
//@| }
//@end

#[verifier::rlimit(80)]
//@macrofn into_repr from src/repr/num_to_repr.rs macro impl_NumToRepr_for_integers subst $t=usize,$u=u64 as into_repr_usize self=x ret=Vec<u8>
//@    ensures r@ == dec_text(x as int),
//@rewrite 1 /let digits_count = DigitCount::digit_count\(x\);/ => /let digits_count = digit_count_usize(x);/
//@rewrite 1 /#\[allow\(unused_comparisons\)\]/ => //
//@rewrite 1 /\(!\(x as u64\)\)/ => /(!(#[verifier::truncate] (x as u64)))/
//@rewrite 1 /let mut repr = Repr::with_capacity\(([^;]*)\)\?;/ => /let mut buf: Vec<u8> = vec![0u8; \1]; assert(buf@.len() == digits_count);/
//@rewrite 1 /let buf_ptr = unsafe \{ repr\.as_slice_mut\(\)\.as_mut_ptr\(\) \};/ => //
//@rewrite 1 /let lut_ptr = DEC_DIGITS_LUT\.as_ptr\(\);/ => //
//@rewrite 4 /ptr::copy_nonoverlapping\(lut_ptr\.add\((\w+)\), buf_ptr\.add\(([^)]+)\), 2\);/ => /buf.set(\2, lut(\1)); buf.set(\2 + 1, lut(\1 + 1));/
//@rewrite 2 /\*buf_ptr\.add\(curr\) = ([^;]+);/ => /buf.set(curr, \1);/
//@rewrite 1 /repr\.set_len\(([^;]*)\);/ => /assert(\1 == buf@.len());/
//@rewrite 1 /debug_assert_eq!\(curr, 0\);/ => /assert(curr == 0);/
//@rewrite 1 /Ok\(repr\)/ => /buf/
//@after `let digits_count = digit_count_usize(x);`
//@| let ghost a: nat = abs(x as int);
//@| let ghost neg: nat = neg1(x as int);
//@| let ghost mut g1: Seq<u8> = Seq::empty();
//@| let ghost mut g2: Seq<u8> = Seq::empty();
//@| let ghost mut gn: nat = 0;
//@| let ghost mut gc: nat = 0;
//@| proof { lemma_tbl(a); }
//@before `let mut n = if is_nonnegative {`
//@| proof { }
//@after `let mut curr = digits_count;`
//@| proof { lemma_inv_init(a, neg, digits_count as nat, buf@); }
//@replace `while n >= 10000 {`
//@| while n >= 10000
//@|     invariant writer_inv(a, neg, digits_count as nat, n as nat, curr as nat, buf@), digits_count <= 20,
//@|         buf@.len() == digits_count, curr <= digits_count,
//@|     decreases n,
//@| {
//@|     let ghost n0 = n;
//@|     let ghost buf0 = buf@;
//@|     proof {
//@|         lemma_inv_facts(a, neg, digits_count as nat, n as nat, curr as nat, buf@);
//@|         lemma_four(n as nat);
//@|     }
//@after `let d2 = (rem % 100) << 1;`
//@| proof { lemma_shl1(rem / 100); lemma_shl1(rem % 100); }
//@after `buf.set(curr + 2, lut(d2)); buf.set(curr + 2 + 1, lut(d2 + 1));`
//@| proof {
//@|     lemma_dec4(n0 as nat);
//@|     assert(d1 == 2 * (rem / 100) && d2 == 2 * (rem % 100));
//@|     assert(buf@[curr as int] == (48 + (n0 / 1000) % 10) as u8);
//@|     assert(buf@[curr + 1] == (48 + (n0 / 100) % 10) as u8);
//@|     assert(buf@[curr + 2] == (48 + (n0 / 10) % 10) as u8);
//@|     assert(buf@[curr + 3] == (48 + n0 % 10) as u8);
//@|     assert(buf@.subrange(curr as int, curr + 4) =~= dec_digits(n0 as nat, 4));
//@|     assert(buf@.subrange(curr + 4, digits_count as int) =~= buf0.subrange(curr + 4, digits_count as int));
//@|     lemma_loop_step(a, neg, digits_count as nat, n0 as nat, (curr + 4) as nat, buf0, buf@);
//@| }
//@after `if n >= 100 {`
//@| proof {
//@|     gn = n as nat; g1 = buf@;
//@|     lemma_inv_facts2(a, neg, digits_count as nat, n as nat, curr as nat, buf@); lemma_shl1(n % 100); l_c((n % 100) as nat);
//@| }
//@after[2/3] `buf.set(curr, lut(d1)); buf.set(curr + 1, lut(d1 + 1));`
//@| proof {
//@|     lemma_dec2(gn);
//@|     assert((gn % 100) / 10 == (gn / 10) % 10 && (gn % 100) % 10 == gn % 10);
//@|     assert(buf@.subrange(curr as int, curr + 2) =~= dec_digits(gn, 2));
//@|     assert(buf@.subrange(curr + 2, digits_count as int) =~= g1.subrange(curr + 2, digits_count as int));
//@|     lemma_step2(a, neg, digits_count as nat, gn, (curr + 2) as nat, g1, buf@);
//@| }
//@before `if n < 10 {`
//@| proof {
//@|     gn = n as nat; g1 = buf@; gc = curr as nat;
//@|     lemma_inv_facts2(a, neg, digits_count as nat, n as nat, curr as nat, buf@);
//@| }
//@after `buf.set(curr, (n as u8) + b'0');`
//@| proof {
//@|     lemma_dec1(gn);
//@|     assert(buf@.subrange(curr as int, curr + 1) =~= dec_digits(gn, 1));
//@| }
//@after `let d1 = n << 1;`
//@| proof { lemma_shl1(n); l_c(n as nat); }
//@after[3/3] `buf.set(curr, lut(d1)); buf.set(curr + 1, lut(d1 + 1));`
//@| proof {
//@|     lemma_dec2(gn);
//@|     assert((gn / 10) % 10 == gn / 10);
//@|     assert(buf@.subrange(curr as int, curr + 2) =~= dec_digits(gn, 2));
//@| }
//@before `if !is_nonnegative {`
//@| proof {
//@|     assert(buf@.subrange(gc as int, digits_count as int) =~= g1.subrange(gc as int, digits_count as int));
//@|     lemma_final(a, neg, digits_count as nat, gn, gc, g1, buf@, (gc - curr) as nat);
//@|     g2 = buf@;
//@| }
//@before `assert(curr == 0);`
//@| proof {
//@|     if neg == 1 {
//@|         assert(buf@.subrange(1, digits_count as int) =~= g2.subrange(1, digits_count as int));
//@|         assert(buf@ =~= seq![45u8] + buf@.subrange(1, digits_count as int));
//@|     } else {
//@|         assert(buf@ =~= buf@.subrange(0, digits_count as int));
//@|     }
//@| }
//@end

} // verus!
fn main() {}
