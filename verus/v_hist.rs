// V-HIST: from per-operation triples to "for all histories over any number of handles".
//
// Specification-only (no code of /repo appears here): a world of handles and live heap blocks,
// the invariant `inv` (the reference count of every live block is the number of handles on
// it, every handle's block is live, ...) and ONE transition relation `step` whose cases are
// exactly the frame disciplines that the Kani contract obligations establish for the real
// functions. The correspondence (case <- obligations) is the table at the end of this file;
// lib/props.py checks on every run that each case names at least one obligation that ran and
// was discharged in that run.
use vstd::prelude::*;
use vstd::set_lib::*;
verus! {

pub struct Block { pub rc: nat, pub cap: nat, pub bytes: Seq<u8>, pub owners: Set<int> }

pub enum HView {
    Inline { text: Seq<u8> },
    Static { sid: int, len: nat },
    Heap { bid: int, len: nat },
}

pub struct World {
    pub handles: Map<int, HView>,
    pub blocks: Map<int, Block>,      // live blocks only
    pub statics: Map<int, Seq<u8>>,   // borrowed 'static objects (never change, never freed)
    pub freed: Set<int>,              // ids of blocks that have been released
}

pub open spec fn text(w: World, h: int) -> Seq<u8> {
    match w.handles[h] {
        HView::Inline { text } => text,
        HView::Static { sid, len } => w.statics[sid].subrange(0, len as int),
        HView::Heap { bid, len } => w.blocks[bid].bytes.subrange(0, len as int),
    }
}

pub open spec fn handle_ok(w: World, h: int) -> bool {
    match w.handles[h] {
        HView::Inline { text } => text.len() <= 16,
        HView::Static { sid, len } => w.statics.dom().contains(sid) && len <= w.statics[sid].len(),
        HView::Heap { bid, len } => w.blocks.dom().contains(bid) && len <= w.blocks[bid].cap
            && w.blocks[bid].owners.contains(h),
    }
}

pub open spec fn block_ok(w: World, b: int) -> bool {
    let k = w.blocks[b];
    &&& k.rc == k.owners.len()
    &&& k.rc >= 1
    &&& k.bytes.len() == k.cap
    &&& !w.freed.contains(b)
    &&& forall|h: int| #[trigger] k.owners.contains(h) ==> w.handles.dom().contains(h)
            && w.handles[h] is Heap && w.handles[h]->Heap_bid == b
}

pub open spec fn inv(w: World) -> bool {
    &&& forall|h: int| #[trigger] w.handles.dom().contains(h) ==> handle_ok(w, h)
    &&& forall|b: int| #[trigger] w.blocks.dom().contains(b) ==> block_ok(w, b)
}

pub open spec fn empty_world(statics: Map<int, Seq<u8>>) -> World {
    World { handles: Map::empty(), blocks: Map::empty(), statics, freed: Set::empty() }
}

// ---------------------------------------------------------------------------------------
// the transition relation: one case per frame discipline
// ---------------------------------------------------------------------------------------

pub enum Step {
    /// constructor yielding an inline or static handle              (no allocation)
    NewOffHeap { h: int, v: HView },
    /// constructor / conversion that allocates a fresh block         (rc == 1)
    NewHeap { h: int, nb: int, blk: Block, len: nat },
    /// clone / clone_from-target / From<&LeanString>: second handle with the same view
    Clone { h: int, h2: int },
    /// Drop of a handle
    Drop { h: int },
    /// truncate / pop / clear-on-unique / set_len: only the handle-local length moves, and
    /// only down when the block is shared
    LocalLen { h: int, len: nat },
    /// in-place write by the sole owner (or into the inline bytes): push_str / insert_str /
    /// remove / retain after reserve / ensure_modifiable
    WriteExclusive { h: int, bytes: Seq<u8>, len: nat },
    /// leave the current storage for a fresh exclusive block: copy-on-write, growth from
    /// inline/static, shrink_to on a shared block
    MoveToFreshHeap { h: int, nb: int, blk: Block, len: nat },
    /// leave the current storage for inline/static storage: shrink_to -> inline, static ->
    /// inline, clear on a shared block, replace_inner
    MoveOffHeap { h: int, v: HView },
    /// the sole owner's block is reallocated (possibly moved), first `keep` bytes preserved
    ReallocUnique { h: int, cap: nat, bytes: Seq<u8> },
    /// any operation that reported ReserveError, and every read-only operation
    Unchanged,
}

/// removing handle `h` from whatever storage it is on (shared: count - 1; last owner: free)
pub open spec fn release(w: World, h: int) -> World {
    match w.handles[h] {
        HView::Heap { bid, len } => {
            let old = w.blocks[bid];
            if old.rc > 1 {
                World { blocks: w.blocks.insert(bid, Block { rc: (old.rc - 1) as nat, owners: old.owners.remove(h), ..old }), ..w }
            } else {
                World { blocks: w.blocks.remove(bid), freed: w.freed.insert(bid), ..w }
            }
        },
        _ => w,
    }
}

pub open spec fn fresh_block_ok(w: World, h: int, nb: int, blk: Block, len: nat) -> bool {
    &&& !w.blocks.dom().contains(nb) && !w.freed.contains(nb)
    &&& blk.rc == 1 && blk.owners == set![h] && blk.bytes.len() == blk.cap && len <= blk.cap
}

pub open spec fn off_heap_view_ok(w: World, v: HView) -> bool {
    match v {
        HView::Inline { text } => text.len() <= 16,
        HView::Static { sid, len } => w.statics.dom().contains(sid) && len <= w.statics[sid].len(),
        HView::Heap { .. } => false,
    }
}

pub open spec fn step(w: World, s: Step, w2: World) -> bool {
    match s {
        Step::NewOffHeap { h, v } => {
            &&& !w.handles.dom().contains(h)
            &&& off_heap_view_ok(w, v)
            &&& w2 == World { handles: w.handles.insert(h, v), ..w }
        },
        Step::NewHeap { h, nb, blk, len } => {
            &&& !w.handles.dom().contains(h)
            &&& fresh_block_ok(w, h, nb, blk, len)
            &&& w2 == World { handles: w.handles.insert(h, HView::Heap { bid: nb, len }), blocks: w.blocks.insert(nb, blk), ..w }
        },
        Step::Clone { h, h2 } => {
            &&& w.handles.dom().contains(h) && !w.handles.dom().contains(h2)
            &&& match w.handles[h] {
                HView::Heap { bid, len } => {
                    let old = w.blocks[bid];
                    w2 == World {
                        handles: w.handles.insert(h2, w.handles[h]),
                        blocks: w.blocks.insert(bid, Block { rc: old.rc + 1, owners: old.owners.insert(h2), ..old }),
                        ..w
                    }
                },
                _ => w2 == World { handles: w.handles.insert(h2, w.handles[h]), ..w },
            }
        },
        Step::Drop { h } => {
            &&& w.handles.dom().contains(h)
            &&& w2 == World { handles: w.handles.remove(h), ..release(w, h) }
        },
        Step::LocalLen { h, len } => {
            &&& w.handles.dom().contains(h)
            &&& match w.handles[h] {
                HView::Heap { bid, len: old } => len <= w.blocks[bid].cap && (w.blocks[bid].rc > 1 ==> len <= old)
                    && w2 == World { handles: w.handles.insert(h, HView::Heap { bid, len }), ..w },
                HView::Static { sid, len: old } => len <= old
                    && w2 == World { handles: w.handles.insert(h, HView::Static { sid, len }), ..w },
                HView::Inline { text: t } => len <= t.len()
                    && w2 == World { handles: w.handles.insert(h, HView::Inline { text: t.subrange(0, len as int) }), ..w },
            }
        },
        Step::WriteExclusive { h, bytes, len } => {
            &&& w.handles.dom().contains(h)
            &&& match w.handles[h] {
                HView::Heap { bid, len: old } => w.blocks[bid].rc == 1 && bytes.len() == w.blocks[bid].cap && len <= w.blocks[bid].cap
                    && w2 == World {
                        handles: w.handles.insert(h, HView::Heap { bid, len }),
                        blocks: w.blocks.insert(bid, Block { bytes, ..w.blocks[bid] }),
                        ..w
                    },
                HView::Inline { .. } => bytes.len() <= 16 && len == bytes.len()
                    && w2 == World { handles: w.handles.insert(h, HView::Inline { text: bytes }), ..w },
                HView::Static { .. } => false,   // a borrowed static text is never written
            }
        },
        Step::MoveToFreshHeap { h, nb, blk, len } => {
            &&& w.handles.dom().contains(h)
            &&& fresh_block_ok(w, h, nb, blk, len)
            &&& {
                let r = release(w, h);
                w2 == World { handles: w.handles.insert(h, HView::Heap { bid: nb, len }), blocks: r.blocks.insert(nb, blk), ..r }
            }
        },
        Step::MoveOffHeap { h, v } => {
            &&& w.handles.dom().contains(h)
            &&& off_heap_view_ok(w, v)
            &&& w2 == World { handles: w.handles.insert(h, v), ..release(w, h) }
        },
        Step::ReallocUnique { h, cap, bytes } => {
            &&& w.handles.dom().contains(h)
            &&& w.handles[h] is Heap
            &&& {
                let bid = w.handles[h]->Heap_bid;
                let len = w.handles[h]->Heap_len;
                &&& w.blocks[bid].rc == 1
                &&& bytes.len() == cap && len <= cap
                &&& bytes.subrange(0, len as int) == w.blocks[bid].bytes.subrange(0, len as int)
                &&& w2 == World { blocks: w.blocks.insert(bid, Block { cap, bytes, ..w.blocks[bid] }), ..w }
            }
        },
        Step::Unchanged => w2 == w,
    }
}

/// the handle a step acts on (None: no handle is the target)
pub open spec fn target(s: Step) -> Option<int> {
    match s {
        Step::NewOffHeap { h, .. } => Some(h),
        Step::NewHeap { h, .. } => Some(h),
        Step::Clone { h2, .. } => Some(h2),
        Step::Drop { h } => Some(h),
        Step::LocalLen { h, .. } => Some(h),
        Step::WriteExclusive { h, .. } => Some(h),
        Step::MoveToFreshHeap { h, .. } => Some(h),
        Step::MoveOffHeap { h, .. } => Some(h),
        Step::ReallocUnique { h, .. } => None,   // text of h itself is unchanged, too
        Step::Unchanged => None,
    }
}

// ---------------------------------------------------------------------------------------
// lemmas about `release`
// ---------------------------------------------------------------------------------------

proof fn lemma_release(w: World, h: int)
    requires inv(w), w.handles.dom().contains(h),
    ensures
        ({
            let r = release(w, h);
            &&& r.handles == w.handles && r.statics == w.statics
            &&& forall|b: int| #[trigger] r.blocks.dom().contains(b) ==> w.blocks.dom().contains(b)
            &&& forall|g: int| g != h && #[trigger] w.handles.dom().contains(g) ==> handle_ok(r, g) && text(r, g) == text(w, g)
            &&& forall|b: int| #[trigger] r.blocks.dom().contains(b) ==> {
                    let k = r.blocks[b];
                    &&& k.rc == k.owners.len() && k.rc >= 1 && k.bytes.len() == k.cap
                    &&& !r.freed.contains(b)
                    &&& !k.owners.contains(h)
                    &&& forall|g: int| #[trigger] k.owners.contains(g) ==> w.handles.dom().contains(g)
                            && w.handles[g] is Heap && w.handles[g]->Heap_bid == b
                }
            &&& forall|b: int| #[trigger] w.freed.contains(b) ==> r.freed.contains(b)
            &&& forall|b: int| r.freed.contains(b) && !w.freed.contains(b) ==>
                    // a block is released only by its last owner
                    w.blocks.dom().contains(b) && w.blocks[b].owners == set![h]
        }),
{
    let r = release(w, h);
    assert(handle_ok(w, h));
    match w.handles[h] {
        HView::Heap { bid, len } => {
            let old = w.blocks[bid];
            assert(block_ok(w, bid));
            assert(old.owners.contains(h));
            if old.rc > 1 {
                assert(old.owners.remove(h).len() == old.owners.len() - 1);
                assert forall|b: int| #[trigger] r.blocks.dom().contains(b) implies !r.blocks[b].owners.contains(h) by {
                    if b != bid {
                        assert(block_ok(w, b));
                        if w.blocks[b].owners.contains(h) {
                            assert(w.handles[h]->Heap_bid == b);
                        }
                    }
                }
                assert forall|g: int| g != h && #[trigger] w.handles.dom().contains(g) implies handle_ok(r, g) && text(r, g) == text(w, g) by {
                    assert(handle_ok(w, g));
                }
                assert forall|b: int| #[trigger] r.blocks.dom().contains(b) implies (forall|g: int| #[trigger] r.blocks[b].owners.contains(g) ==> w.handles.dom().contains(g)
                            && w.handles[g] is Heap && w.handles[g]->Heap_bid == b) by {
                    assert(block_ok(w, b));
                }
                assert forall|b: int| #[trigger] r.blocks.dom().contains(b) implies (r.blocks[b].rc == r.blocks[b].owners.len()
                        && r.blocks[b].rc >= 1 && r.blocks[b].bytes.len() == r.blocks[b].cap && !r.freed.contains(b)) by {
                    assert(block_ok(w, b));
                }
            } else {
                // last owner: owners is exactly {h}
                assert(old.owners.len() == 1);
                lemma_singleton(old.owners, h);
                assert forall|g: int| g != h && #[trigger] w.handles.dom().contains(g) implies handle_ok(r, g) && text(r, g) == text(w, g) by {
                    assert(handle_ok(w, g));
                    match w.handles[g] {
                        HView::Heap { bid: b2, len: l2 } => {
                            assert(block_ok(w, b2));
                            if b2 == bid {
                                assert(old.owners.contains(g));
                            }
                        },
                        _ => {},
                    }
                }
                assert forall|b: int| #[trigger] r.blocks.dom().contains(b) implies !r.blocks[b].owners.contains(h) by {
                    assert(block_ok(w, b));
                    if w.blocks[b].owners.contains(h) {
                        assert(w.handles[h]->Heap_bid == b);
                    }
                }
                assert forall|b: int| #[trigger] r.blocks.dom().contains(b) implies (r.blocks[b].rc == r.blocks[b].owners.len()
                        && r.blocks[b].rc >= 1 && r.blocks[b].bytes.len() == r.blocks[b].cap && !r.freed.contains(b)) by {
                    assert(block_ok(w, b));
                }
                assert forall|b: int| #[trigger] r.blocks.dom().contains(b) implies (forall|g: int| #[trigger] r.blocks[b].owners.contains(g) ==> w.handles.dom().contains(g)
                            && w.handles[g] is Heap && w.handles[g]->Heap_bid == b) by {
                    assert(block_ok(w, b));
                }
            }
        },
        _ => {
            assert forall|b: int| #[trigger] r.blocks.dom().contains(b) implies !r.blocks[b].owners.contains(h) by {
                assert(block_ok(w, b));
            }
            assert forall|g: int| g != h && #[trigger] w.handles.dom().contains(g) implies handle_ok(r, g) && text(r, g) == text(w, g) by {
                assert(handle_ok(w, g));
            }
            assert forall|b: int| #[trigger] r.blocks.dom().contains(b) implies (r.blocks[b].rc == r.blocks[b].owners.len()
                    && r.blocks[b].rc >= 1 && r.blocks[b].bytes.len() == r.blocks[b].cap && !r.freed.contains(b)
                    && (forall|g: int| #[trigger] r.blocks[b].owners.contains(g) ==> w.handles.dom().contains(g)
                            && w.handles[g] is Heap && w.handles[g]->Heap_bid == b)) by {
                assert(block_ok(w, b));
            }
        },
    }
}

proof fn lemma_singleton(s: Set<int>, h: int)
    requires s.len() == 1, s.contains(h),
    ensures s == set![h],
{
    assert(s.remove(h).len() == 0);
    assert(s.remove(h) =~= Set::<int>::empty());
    assert forall|x: int| s.contains(x) implies x == h by {
        if x != h {
            assert(s.remove(h).contains(x));
        }
    }
    assert(s =~= set![h]);
}

// ---------------------------------------------------------------------------------------
// one step: invariant preserved, every other handle reads back the same text (C02), a block
// is released only by its last owner and at most once (C03), Err/read-only steps are the
// identity (C05)
// ---------------------------------------------------------------------------------------

pub proof fn lemma_step(w: World, s: Step, w2: World)
    requires inv(w), step(w, s, w2),
    ensures
        inv(w2),
        w2.statics == w.statics,
        // C02: isolation
        forall|g: int| #[trigger] w.handles.dom().contains(g) && Some(g) != target(s) ==> w2.handles.dom().contains(g) && text(w2, g) == text(w, g),
        // C03: released blocks stay released; a block is released only by its last owner
        forall|b: int| #[trigger] w.freed.contains(b) ==> w2.freed.contains(b),
        forall|b: int| w2.freed.contains(b) && !w.freed.contains(b) ==> w.blocks.dom().contains(b) && w.blocks[b].rc == 1,
        // C05: an Err step changes nothing
        s is Unchanged ==> w2 == w,
{
    match s {
        Step::NewOffHeap { h, v } => {
            assert forall|g: int| #[trigger] w2.handles.dom().contains(g) implies handle_ok(w2, g) by {
                if g != h { assert(handle_ok(w, g)); }
            }
            assert forall|b: int| #[trigger] w2.blocks.dom().contains(b) implies block_ok(w2, b) by {
                assert(block_ok(w, b));
            }
            assert forall|g: int| #[trigger] w.handles.dom().contains(g) && Some(g) != target(s) implies text(w2, g) == text(w, g) by {}
        },
        Step::NewHeap { h, nb, blk, len } => {
            assert(set![h].len() == 1);
            assert forall|g: int| #[trigger] w2.handles.dom().contains(g) implies handle_ok(w2, g) by {
                if g != h { assert(handle_ok(w, g)); }
            }
            assert forall|b: int| #[trigger] w2.blocks.dom().contains(b) implies block_ok(w2, b) by {
                if b != nb { assert(block_ok(w, b)); }
            }
            assert forall|g: int| #[trigger] w.handles.dom().contains(g) && Some(g) != target(s) implies text(w2, g) == text(w, g) by {
                assert(handle_ok(w, g));
            }
        },
        Step::Clone { h, h2 } => {
            assert(handle_ok(w, h));
            match w.handles[h] {
                HView::Heap { bid, len } => {
                    let old = w.blocks[bid];
                    assert(block_ok(w, bid));
                    assert(!old.owners.contains(h2));
                    assert(old.owners.insert(h2).len() == old.owners.len() + 1);
                    assert forall|g: int| #[trigger] w2.handles.dom().contains(g) implies handle_ok(w2, g) by {
                        if g != h2 { assert(handle_ok(w, g)); }
                    }
                    assert forall|b: int| #[trigger] w2.blocks.dom().contains(b) implies block_ok(w2, b) by {
                        assert(block_ok(w, b));
                    }
                    assert forall|g: int| #[trigger] w.handles.dom().contains(g) && Some(g) != target(s) implies text(w2, g) == text(w, g) by {
                        assert(handle_ok(w, g));
                    }
                },
                _ => {
                    assert forall|g: int| #[trigger] w2.handles.dom().contains(g) implies handle_ok(w2, g) by {
                        if g != h2 { assert(handle_ok(w, g)); }
                    }
                    assert forall|b: int| #[trigger] w2.blocks.dom().contains(b) implies block_ok(w2, b) by {
                        assert(block_ok(w, b));
                    }
                    assert forall|g: int| #[trigger] w.handles.dom().contains(g) && Some(g) != target(s) implies text(w2, g) == text(w, g) by {}
                },
            }
        },
        Step::Drop { h } => {
            lemma_release(w, h);
            let r = release(w, h);
            assert forall|g: int| #[trigger] w2.handles.dom().contains(g) implies handle_ok(w2, g) by {
                assert(handle_ok(r, g));
            }
            assert forall|b: int| #[trigger] w2.blocks.dom().contains(b) implies block_ok(w2, b) by {
                assert(r.blocks.dom().contains(b));
            }
            assert forall|g: int| #[trigger] w.handles.dom().contains(g) && Some(g) != target(s) implies w2.handles.dom().contains(g) && text(w2, g) == text(w, g) by {
                assert(text(r, g) == text(w, g));
            }
            assert forall|b: int| w2.freed.contains(b) && !w.freed.contains(b) implies w.blocks.dom().contains(b) && w.blocks[b].rc == 1 by {
                assert(w.blocks[b].owners == set![h]);
                assert(block_ok(w, b));
                assert(set![h].len() == 1);
            }
        },
        Step::LocalLen { h, len } => {
            assert(handle_ok(w, h));
            assert forall|g: int| #[trigger] w2.handles.dom().contains(g) implies handle_ok(w2, g) by {
                assert(handle_ok(w, g));
            }
            assert forall|b: int| #[trigger] w2.blocks.dom().contains(b) implies block_ok(w2, b) by {
                assert(block_ok(w, b));
            }
            assert forall|g: int| #[trigger] w.handles.dom().contains(g) && Some(g) != target(s) implies text(w2, g) == text(w, g) by {}
        },
        Step::WriteExclusive { h, bytes, len } => {
            assert(handle_ok(w, h));
            match w.handles[h] {
                HView::Heap { bid, len: old } => {
                    assert(block_ok(w, bid));
                    lemma_singleton(w.blocks[bid].owners, h);
                    assert forall|g: int| #[trigger] w2.handles.dom().contains(g) implies handle_ok(w2, g) by {
                        assert(handle_ok(w, g));
                    }
                    assert forall|b: int| #[trigger] w2.blocks.dom().contains(b) implies block_ok(w2, b) by {
                        assert(block_ok(w, b));
                    }
                    assert forall|g: int| #[trigger] w.handles.dom().contains(g) && Some(g) != target(s) implies text(w2, g) == text(w, g) by {
                        assert(handle_ok(w, g));
                        match w.handles[g] {
                            HView::Heap { bid: b2, len: l2 } => {
                                if b2 == bid { assert(w.blocks[bid].owners.contains(g)); }
                            },
                            _ => {},
                        }
                    }
                },
                _ => {
                    assert forall|g: int| #[trigger] w2.handles.dom().contains(g) implies handle_ok(w2, g) by {
                        if g != h { assert(handle_ok(w, g)); }
                    }
                    assert forall|b: int| #[trigger] w2.blocks.dom().contains(b) implies block_ok(w2, b) by {
                        assert(block_ok(w, b));
                    }
                    assert forall|g: int| #[trigger] w.handles.dom().contains(g) && Some(g) != target(s) implies text(w2, g) == text(w, g) by {}
                },
            }
        },
        Step::MoveToFreshHeap { h, nb, blk, len } => {
            lemma_release(w, h);
            let r = release(w, h);
            assert(set![h].len() == 1);
            assert forall|g: int| #[trigger] w2.handles.dom().contains(g) implies handle_ok(w2, g) by {
                if g != h {
                    assert(handle_ok(r, g));
                    match w.handles[g] { HView::Heap { bid: b2, .. } => { assert(b2 != nb); }, _ => {} }
                }
            }
            assert forall|b: int| #[trigger] w2.blocks.dom().contains(b) implies block_ok(w2, b) by {
                if b != nb {
                    assert(r.blocks.dom().contains(b));
                    assert forall|g: int| #[trigger] w2.blocks[b].owners.contains(g) implies w2.handles.dom().contains(g)
                            && w2.handles[g] is Heap && w2.handles[g]->Heap_bid == b by {
                        assert(g != h);
                    }
                }
            }
            assert forall|g: int| #[trigger] w.handles.dom().contains(g) && Some(g) != target(s) implies w2.handles.dom().contains(g) && text(w2, g) == text(w, g) by {
                assert(text(r, g) == text(w, g));
                assert(handle_ok(r, g));
                match w.handles[g] { HView::Heap { bid: b2, .. } => { assert(b2 != nb); }, _ => {} }
            }
            assert forall|b: int| w2.freed.contains(b) && !w.freed.contains(b) implies w.blocks.dom().contains(b) && w.blocks[b].rc == 1 by {
                assert(w.blocks[b].owners == set![h]);
                assert(block_ok(w, b));
            }
        },
        Step::MoveOffHeap { h, v } => {
            lemma_release(w, h);
            let r = release(w, h);
            assert forall|g: int| #[trigger] w2.handles.dom().contains(g) implies handle_ok(w2, g) by {
                if g != h { assert(handle_ok(r, g)); }
            }
            assert forall|b: int| #[trigger] w2.blocks.dom().contains(b) implies block_ok(w2, b) by {
                assert(r.blocks.dom().contains(b));
                assert forall|g: int| #[trigger] w2.blocks[b].owners.contains(g) implies w2.handles.dom().contains(g)
                        && w2.handles[g] is Heap && w2.handles[g]->Heap_bid == b by {
                    assert(g != h);
                }
            }
            assert forall|g: int| #[trigger] w.handles.dom().contains(g) && Some(g) != target(s) implies w2.handles.dom().contains(g) && text(w2, g) == text(w, g) by {
                assert(text(r, g) == text(w, g));
            }
            assert forall|b: int| w2.freed.contains(b) && !w.freed.contains(b) implies w.blocks.dom().contains(b) && w.blocks[b].rc == 1 by {
                assert(w.blocks[b].owners == set![h]);
                assert(block_ok(w, b));
                assert(set![h].len() == 1);
            }
        },
        Step::ReallocUnique { h, cap, bytes } => {
            assert(handle_ok(w, h));
            let bid = w.handles[h]->Heap_bid;
            assert(block_ok(w, bid));
            lemma_singleton(w.blocks[bid].owners, h);
            assert forall|g: int| #[trigger] w2.handles.dom().contains(g) implies handle_ok(w2, g) by {
                assert(handle_ok(w, g));
                match w.handles[g] {
                    HView::Heap { bid: b2, len: l2 } => { if b2 == bid { assert(w.blocks[bid].owners.contains(g)); } },
                    _ => {},
                }
            }
            assert forall|b: int| #[trigger] w2.blocks.dom().contains(b) implies block_ok(w2, b) by {
                assert(block_ok(w, b));
            }
            assert forall|g: int| #[trigger] w.handles.dom().contains(g) && Some(g) != target(s) implies text(w2, g) == text(w, g) by {
                assert(handle_ok(w, g));
                match w.handles[g] {
                    HView::Heap { bid: b2, len: l2 } => {
                        if b2 == bid {
                            assert(w.blocks[bid].owners.contains(g));
                            assert(g == h);
                        }
                    },
                    _ => {},
                }
            }
        },
        Step::Unchanged => {},
    }
}

// ---------------------------------------------------------------------------------------
// all histories
// ---------------------------------------------------------------------------------------

/// `ws` is a run: consecutive worlds are related by the steps of `tr`
pub open spec fn is_run(ws: Seq<World>, tr: Seq<Step>) -> bool {
    &&& ws.len() == tr.len() + 1
    &&& forall|i: int| 0 <= i < tr.len() ==> step(#[trigger] ws[i], tr[i], ws[i + 1])
}

/// C01/C02/C03 over every finite history from the empty world
pub proof fn lemma_all_histories(ws: Seq<World>, tr: Seq<Step>, statics: Map<int, Seq<u8>>)
    requires is_run(ws, tr), ws[0] == empty_world(statics),
    ensures
        forall|i: int| 0 <= i < ws.len() ==> inv(#[trigger] ws[i]),
        // when all handles are gone nothing remains allocated
        forall|i: int| 0 <= i < ws.len() && (#[trigger] ws[i]).handles.dom() =~= Set::<int>::empty() ==> ws[i].blocks.dom() =~= Set::<int>::empty(),
        // a released block is never live again, i.e. freed exactly once
        forall|i: int, j: int, b: int| 0 <= i <= j < ws.len() && #[trigger] ws[i].freed.contains(b) ==> #[trigger] ws[j].freed.contains(b) && !ws[j].blocks.dom().contains(b),
    decreases tr.len(),
{
    lemma_inv_all(ws, tr, statics, ws.len() as int - 1);
    assert forall|i: int| 0 <= i < ws.len() implies inv(#[trigger] ws[i]) by {
        lemma_inv_all(ws, tr, statics, i);
    }
    assert forall|i: int| 0 <= i < ws.len() && (#[trigger] ws[i]).handles.dom() =~= Set::<int>::empty() implies ws[i].blocks.dom() =~= Set::<int>::empty() by {
        lemma_inv_all(ws, tr, statics, i);
        lemma_no_handles_no_blocks(ws[i]);
    }
    assert forall|i: int, j: int, b: int| 0 <= i <= j < ws.len() && #[trigger] ws[i].freed.contains(b) implies #[trigger] ws[j].freed.contains(b) && !ws[j].blocks.dom().contains(b) by {
        lemma_freed_monotone(ws, tr, statics, i, j, b);
    }
}

proof fn lemma_inv_all(ws: Seq<World>, tr: Seq<Step>, statics: Map<int, Seq<u8>>, i: int)
    requires is_run(ws, tr), ws[0] == empty_world(statics), 0 <= i < ws.len(),
    ensures inv(ws[i]),
    decreases i,
{
    if i == 0 {
        assert(inv(ws[0]));
    } else {
        lemma_inv_all(ws, tr, statics, i - 1);
        lemma_step(ws[i - 1], tr[i - 1], ws[i]);
    }
}

proof fn lemma_freed_monotone(ws: Seq<World>, tr: Seq<Step>, statics: Map<int, Seq<u8>>, i: int, j: int, b: int)
    requires is_run(ws, tr), ws[0] == empty_world(statics), 0 <= i <= j < ws.len(), ws[i].freed.contains(b),
    ensures ws[j].freed.contains(b), !ws[j].blocks.dom().contains(b),
    decreases j - i,
{
    lemma_inv_all(ws, tr, statics, j);
    if i == j {
        if ws[j].blocks.dom().contains(b) { assert(block_ok(ws[j], b)); }
    } else {
        lemma_freed_monotone(ws, tr, statics, i, j - 1, b);
        lemma_inv_all(ws, tr, statics, j - 1);
        lemma_step(ws[j - 1], tr[j - 1], ws[j]);
        if ws[j].blocks.dom().contains(b) { assert(block_ok(ws[j], b)); }
    }
}

proof fn lemma_no_handles_no_blocks(w: World)
    requires inv(w), w.handles.dom() =~= Set::<int>::empty(),
    ensures w.blocks.dom() =~= Set::<int>::empty(),
{
    assert forall|b: int| !w.blocks.dom().contains(b) by {
        if w.blocks.dom().contains(b) {
            assert(block_ok(w, b));
            let k = w.blocks[b];
            assert(k.owners.len() >= 1);
            let x = k.owners.choose();
            assert(k.owners.contains(x));
            assert(w.handles.dom().contains(x));
        }
    }
}

/// lemma_step, instantiated for one bystander handle (keeps the history proof small)
proof fn lemma_step_frame_one(w: World, s: Step, w2: World, g: int)
    requires inv(w), step(w, s, w2), w.handles.dom().contains(g), target(s) != Some(g),
    ensures w2.handles.dom().contains(g), text(w2, g) == text(w, g),
{
    lemma_step(w, s, w2);
}

/// C01 (history part): a per-handle model text that is updated only by the steps that target
/// the handle stays equal to what the handle reads back - because no step changes the text of
/// a handle it does not target.
pub proof fn lemma_model_refinement(ws: Seq<World>, tr: Seq<Step>, statics: Map<int, Seq<u8>>, g: int, i: int, j: int)
    requires
        is_run(ws, tr), ws[0] == empty_world(statics), 0 <= i <= j < ws.len(),
        ws[i].handles.dom().contains(g),
        forall|k: int| i <= k < j ==> target(#[trigger] tr[k]) != Some(g),
    ensures ws[j].handles.dom().contains(g), text(ws[j], g) == text(ws[i], g),
    decreases j - i,
{
    if i < j {
        lemma_model_refinement(ws, tr, statics, g, i, j - 1);
        lemma_inv_all(ws, tr, statics, j - 1);
        let a = ws[j - 1];
        let s = tr[j - 1];
        let b = ws[j];
        assert(step(a, s, b)) by {
            assert(step(ws[j - 1], tr[j - 1], ws[(j - 1) + 1]));
        }
        assert(target(s) != Some(g));
        lemma_step_frame_one(a, s, b, g);
    }
}

} // verus!
fn main() {}

// Correspondence: step case <- Kani obligations that establish its hypotheses for the real
// functions (checked for coverage by lib/props.py: every listed name must have run and been
// discharged in the same check run).
//
//@case NewOffHeap      <- from_str.no_alloc_if_le_16 from_static_str.never_allocates new.no_alloc from_char.no_alloc with_capacity.no_alloc_if_le_16
//@case NewHeap         <- from_str.exactly_one_alloc from_str.heap_unique with_capacity.exactly_one_alloc with_capacity.heap_exact_unique
//@case Clone           <- clone.bitwise_same clone.rc_plus_one_block_intact clone.no_alloc clone.live_delta
//@case Drop            <- replace_inner.shared_rc_minus_one_block_intact replace_inner.last_owner_frees_exactly_once replace_inner.last_owner_block_released drop.last_owner_frees_exactly_once drop.shared_rc_minus_one_block_intact
//@case LocalLen        <- truncate.block_and_count_untouched truncate.pointer_same truncate.no_alloc_calls pop.block_and_count_untouched pop.pointer_same set_len.bytes_untouched clear.unique_keeps_buffer
//@case WriteExclusive  <- push_str.nothing_written_before_reserve push_str.no_allocator_call_outside_reserve reserve.result_exclusive_and_writable ensure_modifiable.result_exclusive_and_writable remove.nothing_written_before_ensure_modifiable insert_str.nothing_written_before_reserve retain.nothing_written_before_ensure_modifiable realloc.only_when_unique
//@case MoveToFreshHeap <- reserve.shared_old_block_intact reserve.shared_moves_to_own_block reserve.shared_is_one_alloc reserve.to_heap_is_one_alloc ensure_modifiable.shared_old_block_intact ensure_modifiable.shared_is_one_alloc shrink_to.shared_old_block_intact shrink_to.shared_is_one_alloc
//@case MoveOffHeap     <- shrink_to.shared_to_inline_block_intact shrink_to.unique_to_inline_frees_once clear.shared_block_intact_rc_minus_one replace_inner.holds_new_value ensure_modifiable.small_static_to_inline reserve.small_stays_off_heap
//@case ReallocUnique   <- reserve.unique_grow_is_one_realloc reserve.text_same reserve.live_delta_unique shrink_to.unique_is_one_realloc realloc.only_when_unique realloc.layout_match
//@case Unchanged       <- reserve.err_unchanged ensure_modifiable.err_unchanged shrink_to.err_unchanged append.err_unchanged remove.err_unchanged view.read_only
