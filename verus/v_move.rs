// V-MOVE: from the memmove ARGUMENTS that the Kani frame harnesses pin down for symbolic
// sizes (remove.memmove_moves_the_tail_down_by_the_char_width,
// insert_str.memmove_moves_the_tail_up_by_the_argument_length, append.argument_text_inserted)
// to the String text equations, given what `core::ptr::copy` / `copy_nonoverlapping` are
// documented to do (destination range := old source range, nothing else changes).
// Specification-only.
use vstd::prelude::*;
verus! {

/// memmove on a buffer: bytes [dst, dst+cnt) become the OLD bytes [src, src+cnt)
pub open spec fn memmove(b: Seq<u8>, src: int, dst: int, cnt: int) -> Seq<u8>
    recommends 0 <= src, 0 <= dst, 0 <= cnt, src + cnt <= b.len(), dst + cnt <= b.len(),
{
    Seq::new(b.len(), |i: int| if dst <= i < dst + cnt { b[src + (i - dst)] } else { b[i] })
}

/// copy of an argument into [at, at + a.len())
pub open spec fn copy_in(b: Seq<u8>, at: int, a: Seq<u8>) -> Seq<u8>
    recommends 0 <= at, at + a.len() <= b.len(),
{
    Seq::new(b.len(), |i: int| if at <= i < at + a.len() { a[i - at] } else { b[i] })
}

/// remove: shift the tail down by w, then set_len(len - w)
pub proof fn lemma_remove_text(b: Seq<u8>, len: int, idx: int, w: int)
    requires 0 <= idx, 1 <= w, idx + w <= len, len <= b.len(),
    ensures
        memmove(b, idx + w, idx, len - idx - w).subrange(0, len - w)
            == b.subrange(0, idx) + b.subrange(idx + w, len),
{
    let r = memmove(b, idx + w, idx, len - idx - w).subrange(0, len - w);
    let want = b.subrange(0, idx) + b.subrange(idx + w, len);
    assert(r.len() == want.len());
    assert forall|i: int| 0 <= i < r.len() implies r[i] == want[i] by {
        if i < idx {
        } else {
            assert(want[i] == b.subrange(idx + w, len)[i - idx]);
        }
    }
    assert(r =~= want);
}

/// insert_str: shift the tail up by n, copy the argument into the gap, set_len(len + n)
pub proof fn lemma_insert_text(b: Seq<u8>, len: int, idx: int, a: Seq<u8>)
    requires 0 <= idx <= len, len + a.len() <= b.len(),
    ensures
        copy_in(memmove(b, idx, idx + a.len(), len - idx), idx, a).subrange(0, len + a.len())
            == b.subrange(0, idx) + a + b.subrange(idx, len),
{
    let n = a.len() as int;
    let r = copy_in(memmove(b, idx, idx + n, len - idx), idx, a).subrange(0, len + n);
    let want = b.subrange(0, idx) + a + b.subrange(idx, len);
    assert(r.len() == want.len());
    assert forall|i: int| 0 <= i < r.len() implies r[i] == want[i] by {
        if i < idx {
            assert(want[i] == b[i]);
        } else if i < idx + n {
            assert(want[i] == a[i - idx]);
        } else {
            assert(want[i] == b.subrange(idx, len)[i - idx - n]);
        }
    }
    assert(r =~= want);
}

/// push_str: copy the argument behind the text
pub proof fn lemma_push_text(b: Seq<u8>, len: int, a: Seq<u8>)
    requires 0 <= len, len + a.len() <= b.len(),
    ensures copy_in(b, len, a).subrange(0, len + a.len()) == b.subrange(0, len) + a,
{
    let r = copy_in(b, len, a).subrange(0, len + a.len());
    let want = b.subrange(0, len) + a;
    assert(r.len() == want.len());
    assert forall|i: int| 0 <= i < r.len() implies r[i] == want[i] by {
        if i >= len {
            assert(want[i] == a[i - len]);
        }
    }
    assert(r =~= want);
}

} // verus!
fn main() {}
