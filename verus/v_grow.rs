// V-GROW / V-DIGITS: the integer helpers, on their real text (extracted from /repo each run).
use vstd::prelude::*;
verus! {

// 64-bit target (the only one within reach, see DESIGN 2)
global size_of usize == 8;

// ---------------------------------------------------------------------------------------
// growth rule (C12)
// ---------------------------------------------------------------------------------------

/// what the property states: at least len + len/2, no more than the greater of that and the
/// need (mathematical integers)
pub open spec fn growth_rule(len: int, additional: int) -> int {
    let amortized = len + len / 2;
    let need = len + additional;
    if amortized >= need { amortized } else { need }
}

pub open spec fn sat(x: int) -> int {
    if x > usize::MAX { usize::MAX as int } else { x }
}

//@fn amortized_growth from src/repr/heap_buffer.rs
//@    ensures
//@        // exact machine semantics (saturating)
//@        r == ({ let a = sat(cur_len * 3) / 2; let q = sat(cur_len + additional); if a >= q { a } else { q } }),
//@        // the property's rule whenever nothing saturates - in particular for every length and
//@        // request below the 2^56 capacity limit of a HeapBuffer
//@        cur_len * 3 <= usize::MAX && cur_len + additional <= usize::MAX ==> r == growth_rule(cur_len as int, additional as int),
//@        cur_len * 3 <= usize::MAX && cur_len + additional <= usize::MAX ==> r >= cur_len + cur_len / 2 && r >= cur_len + additional,
//@        // saturation only makes the result larger than any capacity a HeapBuffer accepts
//@        (cur_len * 3 > usize::MAX || cur_len + additional > usize::MAX) ==> r >= 0x00FF_FFFF_FFFF_FFFF,
//@end

/// C12 corollary: capacities produced by repeated single-byte pushes grow geometrically, so n
/// pushes cost O(log n) reallocations: after a growth event at length len the next one
/// cannot happen before the length reached len + len/2.
pub proof fn lemma_next_growth_is_geometric(len: int, cap_after: int)
    requires len >= 2, cap_after == growth_rule(len, 1),
    ensures cap_after >= len + len / 2, cap_after - len >= len / 2, cap_after <= len + len / 2 + 1,
{
}

/// at most 1 + log_{3/2}-many growth events up to any length: k growth events starting from
/// a length >= 2 multiply the capacity by at least (3/2)^k / rounding; stated as one step of the
/// induction (the full bound is the iterate of this step)
pub proof fn lemma_growth_step_ratio(len: int)
    requires len >= 4,
    ensures 2 * growth_rule(len, 1) >= 3 * len - 1,
{
}

// ---------------------------------------------------------------------------------------
// decimal digit counts (C14): DigitCount tables
// ---------------------------------------------------------------------------------------

pub open spec fn digits10(n: nat) -> nat
    decreases n,
{
    if n < 10 { 1 } else { 1 + digits10(n / 10) }
}

/// closed form of digits10 below 10^20 (what a verbatim `match` table can be checked against
/// without proof hints inside its body)
pub open spec fn digits10_tbl(n: nat) -> nat {
    if n < 10 { 1 } else if n < 100 { 2 } else if n < 1000 { 3 } else if n < 10000 { 4 }
    else if n < 100000 { 5 } else if n < 1000000 { 6 } else if n < 10000000 { 7 }
    else if n < 100000000 { 8 } else if n < 1000000000 { 9 } else if n < 10000000000 { 10 }
    else if n < 100000000000 { 11 } else if n < 1000000000000 { 12 } else if n < 10000000000000 { 13 }
    else if n < 100000000000000 { 14 } else if n < 1000000000000000 { 15 } else if n < 10000000000000000 { 16 }
    else if n < 100000000000000000 { 17 } else if n < 1000000000000000000 { 18 }
    else if n < 10000000000000000000 { 19 } else { 20 }
}

/// length of the decimal text of x: sign + digits of |x|
pub open spec fn text_len(x: int) -> nat {
    if x < 0 { 1 + digits10_tbl((-x) as nat) } else { digits10_tbl(x as nat) }
}

/// the closed form IS the recursive definition (for everything a 64-bit type can hold)
pub proof fn lemma_tbl_is_digits10(n: nat)
    requires n < 100000000000000000000,
    ensures digits10_tbl(n) == digits10(n),
{
    digits10_unfold_20(n);
}

proof fn digits10_unfold_20(n: nat)
    ensures
        n < 10 ==> digits10(n) == 1,
        10 <= n < 100 ==> digits10(n) == 2,
        100 <= n < 1000 ==> digits10(n) == 3,
        1000 <= n < 10000 ==> digits10(n) == 4,
        10000 <= n < 100000 ==> digits10(n) == 5,
        100000 <= n < 1000000 ==> digits10(n) == 6,
        1000000 <= n < 10000000 ==> digits10(n) == 7,
        10000000 <= n < 100000000 ==> digits10(n) == 8,
        100000000 <= n < 1000000000 ==> digits10(n) == 9,
        1000000000 <= n < 10000000000 ==> digits10(n) == 10,
        10000000000 <= n < 100000000000 ==> digits10(n) == 11,
        100000000000 <= n < 1000000000000 ==> digits10(n) == 12,
        1000000000000 <= n < 10000000000000 ==> digits10(n) == 13,
        10000000000000 <= n < 100000000000000 ==> digits10(n) == 14,
        100000000000000 <= n < 1000000000000000 ==> digits10(n) == 15,
        1000000000000000 <= n < 10000000000000000 ==> digits10(n) == 16,
        10000000000000000 <= n < 100000000000000000 ==> digits10(n) == 17,
        100000000000000000 <= n < 1000000000000000000 ==> digits10(n) == 18,
        1000000000000000000 <= n < 10000000000000000000 ==> digits10(n) == 19,
        10000000000000000000 <= n < 100000000000000000000 ==> digits10(n) == 20,
{
    reveal_with_fuel(digits10, 21);
}

//@fn digit_count from src/repr/num_to_repr.rs impl DigitCount for u8 as digit_count_u8 self=x
//@    ensures r == text_len(x as int),
//@end

//@fn digit_count from src/repr/num_to_repr.rs impl DigitCount for i8 as digit_count_i8 self=x
//@    ensures r == text_len(x as int),
//@end

//@fn digit_count from src/repr/num_to_repr.rs impl DigitCount for u16 as digit_count_u16 self=x
//@    ensures r == text_len(x as int),
//@end

//@fn digit_count from src/repr/num_to_repr.rs impl DigitCount for i16 as digit_count_i16 self=x
//@    ensures r == text_len(x as int),
//@end

//@fn digit_count from src/repr/num_to_repr.rs impl DigitCount for u32 as digit_count_u32 self=x
//@    ensures r == text_len(x as int),
//@end

//@fn digit_count from src/repr/num_to_repr.rs impl DigitCount for i32 as digit_count_i32 self=x
//@    ensures r == text_len(x as int),
//@end

//@fn digit_count from src/repr/num_to_repr.rs impl DigitCount for u64 as digit_count_u64 self=x
//@    ensures r == text_len(x as int),
//@end

//@fn digit_count from src/repr/num_to_repr.rs impl DigitCount for i64 as digit_count_i64 self=x
//@    ensures r == text_len(x as int),
//@end

} // verus!
fn main() {}
