// V-UTF8: the bytes of every LeanString are valid UTF-8 at all times (C07), for texts of ANY
// length: lemmas over the content equations that the Kani contracts establish
//   push_str:    text' = text ++ s
//   insert_str:  text' = text[..idx] ++ s ++ text[idx..]        (idx on a char boundary)
//   truncate/pop text' = text[..n]                               (n on a char boundary)
//   remove:      text' = text[..idx] ++ text[idx+w..]            (idx boundary, w = scalar width)
// plus soundness of the local facts the Kani pre-state generators assume (a non-empty valid
// text ends in a byte < 0xC0 and does not start with a continuation byte) and correctness of
// the boundary test the code uses (`!is_cont(text[idx])`  <=>  idx is a scalar boundary).
// Specification-only: no code of /repo appears here.
use vstd::prelude::*;
verus! {

pub open spec fn is_cont(b: u8) -> bool { 0x80 <= b <= 0xBF }

/// width of the well-formed UTF-8 scalar starting at byte k (Unicode Table 3-7), 0 if none
pub open spec fn width(s: Seq<u8>, k: int) -> int
    recommends 0 <= k < s.len(),
{
    let b0 = s[k];
    if b0 < 0x80 { 1 }
    else if 0xC2 <= b0 <= 0xDF {
        if k + 2 <= s.len() && is_cont(s[k + 1]) { 2 } else { 0 }
    } else if 0xE0 <= b0 <= 0xEF {
        if k + 3 <= s.len()
            && (if b0 == 0xE0 { 0xA0 <= s[k + 1] <= 0xBF } else if b0 == 0xED { 0x80 <= s[k + 1] <= 0x9F } else { is_cont(s[k + 1]) })
            && is_cont(s[k + 2]) { 3 } else { 0 }
    } else if 0xF0 <= b0 <= 0xF4 {
        if k + 4 <= s.len()
            && (if b0 == 0xF0 { 0x90 <= s[k + 1] <= 0xBF } else if b0 == 0xF4 { 0x80 <= s[k + 1] <= 0x8F } else { is_cont(s[k + 1]) })
            && is_cont(s[k + 2]) && is_cont(s[k + 3]) { 4 } else { 0 }
    } else { 0 }
}

pub open spec fn valid_from(s: Seq<u8>, k: int) -> bool
    decreases s.len() - k,
{
    if k >= s.len() { k == s.len() }
    else if k < 0 { false }
    else { width(s, k) > 0 && valid_from(s, k + width(s, k)) }
}

pub open spec fn valid(s: Seq<u8>) -> bool { valid_from(s, 0) }

/// t is one of the positions the scalar walk from k visits (a char boundary)
pub open spec fn reach(s: Seq<u8>, k: int, t: int) -> bool
    decreases s.len() - k,
{
    if k == t { true }
    else if k > t || k >= s.len() || k < 0 { false }
    else { width(s, k) > 0 && reach(s, k + width(s, k), t) }
}

proof fn lemma_width_bounds(s: Seq<u8>, k: int)
    requires 0 <= k < s.len(),
    ensures 0 <= width(s, k) <= 4, width(s, k) > 0 ==> k + width(s, k) <= s.len(),
            width(s, k) > 0 ==> !is_cont(s[k]),
            forall|j: int| k < j < k + width(s, k) ==> is_cont(#[trigger] s[j]),
{
}

/// the width only looks at the (up to) four bytes at k: equal windows give equal widths
proof fn lemma_width_local(a: Seq<u8>, i: int, b: Seq<u8>, j: int)
    requires
        0 <= i < a.len(), 0 <= j < b.len(), width(a, i) > 0,
        j + width(a, i) <= b.len(),
        forall|d: int| 0 <= d < width(a, i) ==> #[trigger] a[i + d] == b[j + d],
    ensures width(b, j) == width(a, i),
{
    lemma_width_bounds(a, i);
    let w = width(a, i);
    assert(a[i + 0] == b[j + 0]);
    if w >= 2 { assert(a[i + 1] == b[j + 1]); }
    if w >= 3 { assert(a[i + 2] == b[j + 2]); }
    if w >= 4 { assert(a[i + 3] == b[j + 3]); }
}

// ---------------------------------------------------------------------------------------
// walking
// ---------------------------------------------------------------------------------------

/// valid_from is inherited along the walk
proof fn lemma_reach_valid(s: Seq<u8>, k: int, t: int)
    requires valid_from(s, k), reach(s, k, t),
    ensures valid_from(s, t), k <= t <= s.len(),
    decreases s.len() - k,
{
    if k != t {
        lemma_width_bounds(s, k);
        lemma_reach_valid(s, k + width(s, k), t);
    } else {
        lemma_valid_from_in_range(s, k);
    }
}

proof fn lemma_valid_from_in_range(s: Seq<u8>, k: int)
    requires valid_from(s, k),
    ensures 0 <= k <= s.len() || (k == s.len()),
{
}

/// reach is transitive
proof fn lemma_reach_trans(s: Seq<u8>, k: int, t: int, u: int)
    requires reach(s, k, t), reach(s, t, u),
    ensures reach(s, k, u),
    decreases s.len() - k,
{
    if k != t {
        lemma_reach_trans(s, k + width(s, k), t, u);
        lemma_reach_le(s, t, u);
        lemma_reach_le(s, k + width(s, k), t);
        lemma_width_bounds(s, k);
    }
}

proof fn lemma_reach_le(s: Seq<u8>, k: int, t: int)
    requires reach(s, k, t),
    ensures k <= t,
    decreases s.len() - k,
{
    if k != t {
        lemma_reach_le(s, k + width(s, k), t);
        lemma_width_bounds(s, k);
    }
}

/// the end of a valid text is reached
proof fn lemma_reach_end(s: Seq<u8>, k: int)
    requires valid_from(s, k), 0 <= k,
    ensures reach(s, k, s.len() as int),
    decreases s.len() - k,
{
    if k < s.len() {
        lemma_width_bounds(s, k);
        lemma_reach_end(s, k + width(s, k));
    }
}

// ---------------------------------------------------------------------------------------
// concatenation, prefix, suffix
// ---------------------------------------------------------------------------------------

/// suffix: the walk of s from t is the walk of s[t..] from 0
proof fn lemma_suffix(s: Seq<u8>, t: int, k: int)
    requires 0 <= t <= t + k <= s.len(), valid_from(s, t + k),
    ensures valid_from(s.subrange(t, s.len() as int), k),
    decreases s.len() - (t + k),
{
    let r = s.subrange(t, s.len() as int);
    if t + k < s.len() {
        lemma_width_bounds(s, t + k);
        let w = width(s, t + k);
        assert forall|d: int| 0 <= d < w implies #[trigger] s[t + k + d] == r[k + d] by {}
        lemma_width_local(s, t + k, r, k);
        lemma_suffix(s, t, k + w);
    }
}

/// and back: a valid text b placed behind any prefix a
proof fn lemma_shift(a: Seq<u8>, b: Seq<u8>, k: int)
    requires 0 <= k <= b.len(), valid_from(b, k),
    ensures valid_from(a + b, a.len() + k),
    decreases b.len() - k,
{
    let s = a + b;
    if k < b.len() {
        lemma_width_bounds(b, k);
        let w = width(b, k);
        assert forall|d: int| 0 <= d < w implies #[trigger] b[k + d] == s[a.len() + k + d] by {}
        lemma_width_local(b, k, s, a.len() + k);
        lemma_shift(a, b, k + w);
    }
}

/// prefix part of the concatenation: while the walk stays inside `a` it is the walk of `a`
proof fn lemma_concat_from(a: Seq<u8>, b: Seq<u8>, k: int)
    requires 0 <= k <= a.len(), valid_from(a, k), valid(b),
    ensures valid_from(a + b, k),
    decreases a.len() - k,
{
    let s = a + b;
    if k < a.len() {
        lemma_width_bounds(a, k);
        let w = width(a, k);
        assert forall|d: int| 0 <= d < w implies #[trigger] a[k + d] == s[k + d] by {}
        lemma_width_local(a, k, s, k);
        lemma_concat_from(a, b, k + w);
    } else {
        lemma_shift(a, b, 0);
    }
}

/// push_str / += / write_str / extend: valid ++ valid is valid
pub proof fn lemma_concat_valid(a: Seq<u8>, b: Seq<u8>)
    requires valid(a), valid(b),
    ensures valid(a + b),
{
    lemma_concat_from(a, b, 0);
}

/// truncate / pop: a prefix that ends on a boundary is valid
proof fn lemma_prefix_from(s: Seq<u8>, t: int, k: int)
    requires 0 <= k <= t <= s.len(), valid_from(s, k), reach(s, k, t),
    ensures valid_from(s.subrange(0, t), k),
    decreases t - k,
{
    let p = s.subrange(0, t);
    if k < t {
        lemma_width_bounds(s, k);
        let w = width(s, k);
        lemma_reach_le(s, k + w, t);
        assert forall|d: int| 0 <= d < w implies #[trigger] s[k + d] == p[k + d] by {}
        lemma_width_local(s, k, p, k);
        lemma_prefix_from(s, t, k + w);
    }
}

pub proof fn lemma_prefix_valid(s: Seq<u8>, t: int)
    requires valid(s), reach(s, 0, t),
    ensures valid(s.subrange(0, t)), 0 <= t <= s.len(),
{
    lemma_reach_valid(s, 0, t);
    lemma_prefix_from(s, t, 0);
}

pub proof fn lemma_suffix_valid(s: Seq<u8>, t: int)
    requires valid(s), reach(s, 0, t),
    ensures valid(s.subrange(t, s.len() as int)),
{
    lemma_reach_valid(s, 0, t);
    lemma_suffix(s, t, 0);
}

// ---------------------------------------------------------------------------------------
// the boundary test of the code
// ---------------------------------------------------------------------------------------

/// `str::is_char_boundary` as the code uses it: 0, len, or a byte that is not a continuation
pub open spec fn code_boundary(s: Seq<u8>, t: int) -> bool {
    t == 0 || t == s.len() || (0 < t < s.len() && !is_cont(s[t]))
}

proof fn lemma_boundary_reached(s: Seq<u8>, k: int, t: int)
    requires valid_from(s, k), 0 <= k <= t < s.len(), !is_cont(s[t]),
    ensures reach(s, k, t),
    decreases t - k,
{
    if k < t {
        lemma_width_bounds(s, k);
        let w = width(s, k);
        if k + w <= t {
            lemma_boundary_reached(s, k + w, t);
        } else {
            // t would lie strictly inside the scalar at k: then s[t] is a continuation byte
            assert(is_cont(s[t]));
        }
    }
}

/// for a valid text the test is exact: it holds precisely at the scalar boundaries
pub proof fn lemma_code_boundary_is_scalar_boundary(s: Seq<u8>, t: int)
    requires valid(s), 0 <= t <= s.len(),
    ensures code_boundary(s, t) <==> reach(s, 0, t),
{
    if t == s.len() {
        lemma_reach_end(s, 0);
    } else if t > 0 {
        if !is_cont(s[t]) {
            lemma_boundary_reached(s, 0, t);
        }
        if reach(s, 0, t) {
            lemma_reach_valid(s, 0, t);
            lemma_width_bounds(s, t);
        }
    }
}

// ---------------------------------------------------------------------------------------
// the editing operations
// ---------------------------------------------------------------------------------------

pub proof fn lemma_truncate_valid(s: Seq<u8>, n: int)
    requires valid(s), 0 <= n <= s.len(), code_boundary(s, n),
    ensures valid(s.subrange(0, n)),
{
    lemma_code_boundary_is_scalar_boundary(s, n);
    lemma_prefix_valid(s, n);
}

pub proof fn lemma_insert_valid(s: Seq<u8>, idx: int, t: Seq<u8>)
    requires valid(s), valid(t), 0 <= idx <= s.len(), code_boundary(s, idx),
    ensures valid(s.subrange(0, idx) + t + s.subrange(idx, s.len() as int)),
{
    lemma_code_boundary_is_scalar_boundary(s, idx);
    lemma_prefix_valid(s, idx);
    lemma_suffix_valid(s, idx);
    lemma_concat_valid(s.subrange(0, idx), t);
    lemma_concat_valid(s.subrange(0, idx) + t, s.subrange(idx, s.len() as int));
}

pub proof fn lemma_remove_valid(s: Seq<u8>, idx: int)
    requires valid(s), 0 <= idx < s.len(), code_boundary(s, idx),
    ensures
        width(s, idx) > 0,
        valid(s.subrange(0, idx) + s.subrange(idx + width(s, idx), s.len() as int)),
{
    lemma_code_boundary_is_scalar_boundary(s, idx);
    lemma_reach_valid(s, 0, idx);
    lemma_width_bounds(s, idx);
    let w = width(s, idx);
    // idx + w is the next position of the walk
    assert(reach(s, idx, idx + w)) by {
        assert(reach(s, idx + w, idx + w));
    }
    lemma_reach_trans(s, 0, idx, idx + w);
    lemma_prefix_valid(s, idx);
    lemma_suffix_valid(s, idx + w);
    lemma_concat_valid(s.subrange(0, idx), s.subrange(idx + w, s.len() as int));
}

// ---------------------------------------------------------------------------------------
// soundness of the local facts assumed by the Kani pre-state generators
// ---------------------------------------------------------------------------------------

proof fn lemma_last_byte_from(s: Seq<u8>, k: int)
    requires valid_from(s, k), 0 <= k < s.len(),
    ensures s[s.len() - 1] < 0xC0,
    decreases s.len() - k,
{
    lemma_width_bounds(s, k);
    let w = width(s, k);
    if k + w < s.len() {
        lemma_last_byte_from(s, k + w);
    } else {
        // the scalar at k is the last one
        if w > 1 {
            assert(is_cont(s[s.len() - 1]));
        }
    }
}

/// `wf`: a non-empty valid text ends in an ASCII or continuation byte (so a full inline
/// buffer's 16th byte is never mistaken for a length tag or a heap/static marker) ...
pub proof fn lemma_valid_last_byte(s: Seq<u8>)
    requires valid(s), s.len() > 0,
    ensures s[s.len() - 1] < 0xC0,
{
    lemma_last_byte_from(s, 0);
}

/// ... and does not start with a continuation byte; the byte in front of a boundary ends a
/// scalar (the `requires` of the truncate / pop / remove harnesses)
pub proof fn lemma_valid_first_byte_and_before_boundary(s: Seq<u8>, t: int)
    requires valid(s), s.len() > 0, 0 < t <= s.len(), code_boundary(s, t),
    ensures !is_cont(s[0]), s[t - 1] < 0xC0,
{
    lemma_width_bounds(s, 0);
    lemma_truncate_valid(s, t);
    lemma_valid_last_byte(s.subrange(0, t));
}

// non-vacuity: the definitions accept a real text and reject broken ones
pub proof fn lemma_examples()
    ensures
        valid(seq![0x41u8, 0xC3u8, 0xA9u8, 0xE2u8, 0x82u8, 0xACu8, 0xF0u8, 0x9Fu8, 0x98u8, 0x80u8]),   // "Aé€😀"
        !valid(seq![0x80u8]),
        !valid(seq![0xE2u8, 0x82u8]),
        !valid(seq![0xC0u8, 0x80u8]),
        !valid(seq![0xEDu8, 0xA0u8, 0x80u8]),
{
    reveal_with_fuel(valid_from, 6);
    let s = seq![0x41u8, 0xC3u8, 0xA9u8, 0xE2u8, 0x82u8, 0xACu8, 0xF0u8, 0x9Fu8, 0x98u8, 0x80u8];
    assert(width(s, 0) == 1);
    assert(width(s, 1) == 2);
    assert(width(s, 3) == 3);
    assert(width(s, 6) == 4);
}

} // verus!
fn main() {}
