"""Per-property metadata (what is claimed, by which units, on what trusted base) and the
evidence writer. The obligations themselves live in /verif/kani/*.rs (`obl!`) and
/verif/verus/*.rs; nothing here decides anything."""
import os
import re
import vlib

COMMON_TRUST = [
    "Kani 0.68.0 / CBMC 6.11.0 / MiniSat2 (bit-precise symbolic execution + SAT; per-harness solver in coverage.harnesses[].backend), rustc front end",
    "Kani's models of __rust_alloc/__rust_realloc/__rust_dealloc, memcpy/memmove, atomics executed sequentially",
    "allocator stubs v_alloc/v_realloc/v_dealloc in kani/verif_repr.rs (thin wrappers; refuse any request nondeterministically, always above 2^46 bytes)",
    "generators any_inline/any_static/any_heap produce exactly the well-formed states (wf); pre-state capacity <= 2^16 (quick) / 2^40 (thorough)",
    "64-bit little-endian target only: all target_pointer_width=32 code (length-on-heap, ALLOC_LIMIT) is outside reach",
    "reference counts <= isize::MAX in pre-states (the overflow arm of make_shallow_clone is not under contract)",
]

VERUS_TRUST = ["Verus 0.2026.09.13 / Z3 (vstd), machine integers as declared in the extracted Rust types"]

PROPS = {}


def prop(pid, **kw):
    PROPS[pid] = kw


def scan_assumptions():
    """mechanical list of every assume / stub / external_body / admit in /verif (DESIGN 3.10)"""
    out = []
    for d in ("kani", "verus", "shim"):
        root = os.path.join(vlib.VERIF, d)
        for dp, _, fs in os.walk(root):
            for f in sorted(fs):
                if not f.endswith(".rs"):
                    continue
                p = os.path.join(dp, f)
                n = {}
                for line in open(p):
                    for pat, key in ((r"kani::assume\(", "kani::assume"), (r"#\[kani::stub\(", "kani::stub"),
                                     (r"kani::stub_verified", "stub_verified"), (r"external_body", "external_body"),
                                     (r"assume_specification", "assume_specification"), (r"\badmit\(", "admit"),
                                     (r"\bassume\(", "assume")):
                        if re.search(pat, line) and not line.strip().startswith("//"):
                            if key == "assume" and "kani::assume" in line:
                                continue
                            n[key] = n.get(key, 0) + 1
                if n:
                    out.append("%s: %s" % (os.path.relpath(p, vlib.VERIF), ", ".join("%s x%d" % kv for kv in sorted(n.items()))))
    return out


def evidence(pid, tier, seed, meta, obligations, n_obl, n_dis, harness_rows, verus_rows, undecided, new_failed,
             known_hit, wall, src_hash, injected, canary_ok):
    samples = []
    seen = set()
    for o in obligations:
        if o.get("kind") == "contract" and o["name"] not in seen:
            seen.add(o["name"])
            samples.append({"obligation": o["name"], "harness": o["harness"], "status": o["status"], "kind": o["kind"]})
        if len(samples) >= 12:
            break
    for o in obligations:
        if o.get("kind") in ("auto", "verus") and len(samples) < 16:
            samples.append({"obligation": o["name"], "harness": o["harness"], "status": o["status"], "kind": o["kind"]})
    contract_names = sorted(set(o["name"] for o in obligations if o.get("kind") == "contract"))
    bounded = [r for r in harness_rows if r["class"] == "B"]
    level = meta.get("level", "proof")
    cov = {
        "obligations": n_obl,
        "discharged": n_dis,
        "checker_cmd": "cd <scratch copy of /repo + injected cfg(kani) modules> && cargo kani -Z stubbing -Z function-contracts -Z unstable-options --harness <h> --exact --no-assertion-reach-checks --solver minisat ; verus <extracted>.rs --output-json",
        "trusted_base": COMMON_TRUST + (VERUS_TRUST if verus_rows else []) + meta.get("trust", []),
        "explanation": meta.get("claim", ""),
        "samples": samples,
        "contract_obligations_distinct": len(contract_names),
        "contract_obligation_names": contract_names,
        "auto_obligations": sum(1 for o in obligations if o.get("kind") == "auto"),
        "verus_obligations": sum(1 for o in obligations if o.get("kind") == "verus"),
        "functions_under_contract": meta.get("functions", []),
        "harnesses": harness_rows,
        "verus_units": [{k: v for k, v in r.items() if k != "obligations"} for r in verus_rows],
        "bounded": [{"harness": r["harness"], "bound": r["bound"]} for r in bounded] + meta.get("bounded_notes", []),
        "proved_unbounded_harnesses": sum(1 for r in harness_rows if r["class"] == "U"),
        "bounded_harnesses": len(bounded),
        "solver_time_s": round(sum(r["solver_s"] for r in harness_rows), 1),
        "source_hash": src_hash,
        "injected": injected,
        "canary_failed_as_expected": canary_ok,
        "undecided": undecided,
        "failed": [{"obligation": f["name"], "harness": f["harness"]} for f in new_failed],
        "known_findings_hit": [{"obligation": f["name"], "harness": f["harness"], "what": k["what"]} for f, k in known_hit],
        "not_covered": meta.get("not_covered", []),
    }
    return {
        "property_id": pid,
        "tier": tier,
        "seed": seed,
        "level": level,
        "coverage": cov,
        "assumptions": scan_assumptions() + meta.get("assumptions", []),
        "wall_s": wall,
        "violations": len(set((f["name"], f["harness"]) for f in new_failed)),
    }


# ----------------------------------------------------------------------------------------
# the properties
# ----------------------------------------------------------------------------------------

REPR_CORE = ["Repr::reserve", "Repr::ensure_modifiable", "Repr::make_shallow_clone", "Repr::replace_inner", "Repr::shrink_to"]
REPR_EDIT = ["Repr::push_str", "Repr::truncate", "Repr::truncate_unchecked", "Repr::pop", "Repr::set_len", "Repr::remove",
             "Repr::insert_str", "Repr::retain"]
REPR_CTOR = ["Repr::new", "Repr::from_str", "Repr::from_static_str", "Repr::with_capacity", "Repr::from_char", "Repr::from_bool"]
REPR_VIEW = ["Repr::len", "Repr::is_empty", "Repr::capacity", "Repr::as_bytes", "Repr::as_str", "Repr::is_unique", "Repr::is_heap_buffer"]
HB = ["HeapBuffer::new", "HeapBuffer::with_capacity", "HeapBuffer::with_additional", "HeapBuffer::realloc", "HeapBuffer::dealloc",
      "HeapBuffer::allocate_ptr", "HeapBuffer::layout_from_capacity", "HeapBuffer::set_len", "amortized_growth", "TextLen::new",
      "Capacity::new", "InlineBuffer::new", "InlineBuffer::set_len", "StaticBuffer::new", "StaticBuffer::set_len"]
LIB = ["LeanString::clear", "Drop::drop", "Clone::clone", "Clone::clone_from", "From<&LeanString>", "LeanString::try_* (delegation)",
       "LeanString plain forms (delegation + unwrap_with_msg)", "fmt::Write::write_str", "Add<&str>", "AddAssign<&str>",
       "Extend<char>", "FromIterator<char>"]

COMPOSE = ("whole-operation claims for shared/static pre-states of push_str/insert_str/remove/retain are the Hoare composition of "
           "the callee contract (reserve / ensure_modifiable, proved on the real callee for all storage kinds), the call-protocol "
           "obligations (called once, right argument, nothing written before, no allocator call outside) and the modular body contract; "
           "the composition itself is proved in verus/v_comp.rs and re-checked end to end on bounded sizes by verif_e2e.rs; trusted: that "
           "the relations `*_runs` of v_comp.rs say what the call-protocol obligations say")
MEMMOVE = ("intra-buffer memmove of remove/insert_str: its ARGUMENTS (which range moves where) are proved for symbolic sizes and every "
           "storage kind (remove/insert_str.memmove_moves_the_tail_*), and verus/v_move.rs derives the String text equation from them given "
           "memmove's documented semantics; the byte-exact result with the REAL memmove executed is checked for inline storage (all 2^128 "
           "buffers) and for heap storage at concrete capacities (class B) - CBMC does not terminate on a memmove inside an object of "
           "symbolic size")

prop("C01", level="proof",
     claim="Per-operation Hoare triples {WF /\\ requires} op {WF /\\ text' = String-semantics(text, args) /\\ result} discharged by Kani/CBMC on the real "
           "functions for arbitrary well-formed pre-states of every storage kind (symbolic capacity/length/refcount/stale bytes), with the "
           "sequence semantics of String written as the post-condition; V-HIST (Verus) lifts the triples to every finite history over any "
           "number of handles.",
     functions=REPR_CORE + REPR_EDIT + REPR_CTOR + REPR_VIEW + LIB, verus=["v_hist", "v_comp", "v_move"],
     trust=["String's method semantics transcribed from its documentation as sequence equations", COMPOSE],
     bounded_notes=[{"what": MEMMOVE}, {"what": "retain: text <= 6 bytes (loop unwound)"}, {"what": "extend/collect: <= 3 items"}],
     not_covered=["iterator-driven operations beyond 3 items (each item is one push under contract)", "32-bit targets"])

prop("C02", level="proof",
     claim="Clone-on-write isolation as frame clauses of every mutator contract: when the pre-state block has rc > 1 its header capacity, "
           "liveness and every byte in [0, capacity) (symbolic index over the capacity, not the length) are unchanged and rc moves by "
           "exactly the handles that left/joined; borrowed static objects are byte-identical after every operation; realloc/in-place "
           "writes only when rc == 1 (allocator-stub obligations); V-HIST: text of every other handle unchanged by every step, for any "
           "number of handles with different lengths on one block.",
     functions=REPR_CORE + REPR_EDIT + LIB, verus=["v_hist", "v_comp"], trust=[COMPOSE],
     not_covered=["panicking outcomes other than the bad-index panics of C07 (no unwinding in the verifier)"])

prop("C03", level="proof",
     claim="Every allocator call of the crate goes through contract stubs that check: dealloc only of a live block, with the layout it was "
           "allocated with, only when its count is 0; realloc only of a live block with its layout and only when rc == 1; per-operation "
           "live-block deltas; Kani's pointer checks (no access outside an object or through a freed one) in every harness; V-HIST: rc == "
           "number of handles is an invariant of all histories, a block is released only by its last owner and never again, no handles => "
           "no live blocks.",
     functions=REPR_CORE + HB + ["Drop::drop", "LeanString::clear", "Clone::clone_from"], verus=["v_hist"], trust=[],
     not_covered=["FromIterator<char>'s bare Repr accumulator when the iterator panics (unwinding; see C18)"])

prop("C04", level="other",
     claim="Thread-modular (rely/guarantee) check of the reference-count protocol on the REAL code through the crate's own cfg(loom) "
           "seam, under sequential consistency: each count-touching operation (reserve, ensure_modifiable, shrink_to, clone, drop, clear) "
           "runs as one thread against an environment that holds any number of other handles on the same block and may clone or drop "
           "any of them - including dropping the last one and freeing the block - at every atomic operation; obligations: no access to a "
           "freed block (Kani pointer checks), count == number of handles afterwards, bytes and capacity stable while readers exist, "
           "release only as last owner, the thread reads back its own text; plus the minimum memory orderings of the protocol as "
           "obligations of the atomic API (decrement at least Release; an Acquire between observing sole ownership and "
           "dealloc / realloc / exclusive use). This is NOT a proof over all C11 executions.",
     functions=["Repr::reserve", "Repr::ensure_modifiable", "Repr::shrink_to", "Repr::make_shallow_clone", "Repr::replace_inner",
                "LeanString::clear", "HeapBuffer::is_unique", "HeapBuffer::reference_count"],
     verus=[],
     trust=["the environment model in shim/loom/src/lib.rs: other owners only clone/drop (they never write the text - their guarantee is "
            "C02 of this same code), cannot obtain a handle when they hold none, and act atomically at atomic-operation points (complete "
            "for SC because their steps depend on the count only)",
            "the ordering side-conditions are the documented Arc protocol, stated by me, not derived from the C11 model"],
     bounded_notes=[{"what": "block capacity <= 64 in the interference harnesses"}],
     not_covered=["weak-memory executions not excluded by the two ordering side-conditions", "more than one thread of the code under test "
                  "mutating through the same &mut (excluded by Rust's aliasing rules)", "the 32-bit length-on-heap path of truncate",
                  "loom's own tests (tests/loom.rs)"])

prop("C05", level="proof",
     claim="Every harness runs with an allocator that may refuse ANY request; for every operation and storage state: Err => handle bits, "
           "reference count, block contents and the live set exactly as before, post-state well-formed (hence usable and released "
           "normally by the drop contract), at most one allocator request per operation (so single failures are exhaustive on 64-bit); "
           "plain forms panic iff the callee reports Err (unwrap_with_msg contract + delegation).",
     functions=REPR_CORE + REPR_EDIT + REPR_CTOR + ["UnwrapWithMsg::unwrap_with_msg", "LeanString plain forms"], verus=["v_hist"],
     trust=["the panic message reaching the panic payload is core::panic machinery (format_args of `{error}`), not observable in the verifier"],
     not_covered=["pairs of failures inside one operation exist only in the 32-bit layout-switch path of realloc"])

prop("C06", level="proof",
     claim="additional / capacity / min_capacity / size_hint are unconstrained usize in the contracts of with_capacity, reserve, shrink_to, "
           "push_str, insert_str, extend, collect: Ok => documented post-condition (capacity >= len + n, no overflow), Err => nothing "
           "changed for the target and for every sharer; allocation size == 16 + capacity >= bytes later written; requests above 2^46 "
           "bytes are refused by the allocator model.",
     functions=["Repr::with_capacity", "Repr::reserve", "Repr::shrink_to", "Repr::push_str", "Repr::insert_str", "Extend<char>::extend",
                "FromIterator<char>::from_iter", "amortized_growth", "Capacity::new", "TextLen::new", "HeapBuffer::layout_from_capacity"],
     verus=["v_grow"], trust=["pre-state text lengths <= 2^16 (quick) / 2^40 (thorough)"], not_covered=[])

prop("C07", level="proof",
     claim="P-bad harnesses: under the negation of String's acceptance condition the real function never returns and none of its "
           "state-changing callees (ensure_modifiable, reserve, set_len, truncate_unchecked, replace_inner, allocator) is reached before "
           "the panic; P-good: under the acceptance condition no panic is reachable (all storage kinds incl. exactly-16-byte inline, "
           "static, heap unique/shared, symbolic sizes). UTF-8 validity of every result: V-UTF8 (Verus) over the content equations.",
     functions=["Repr::remove", "Repr::insert_str", "Repr::truncate", "LeanString::{try_,}{remove,insert,insert_str,truncate} (delegation)"],
     verus=["v_utf8"],
     trust=["String's acceptance condition (is_char_boundary; idx < len for remove) transcribed from its documentation"],
     bounded_notes=[{"what": MEMMOVE}],
     not_covered=["raw writes before the index check that do not go through one of the trapped callees"])

prop("C08", level="proof",
     claim="clone / clone_from / From<&LeanString> / to_lean_string(LeanString): allocator counters unchanged, result bitwise equal to the "
           "source (same pointer for heap/static, 2-word copy for inline), rc + 1, dropping either leaves the other intact with the count "
           "restored; all lengths (symbolic capacity).",
     functions=["Repr::make_shallow_clone", "Clone::clone", "Clone::clone_from", "From<&LeanString>", "ToLeanString for LeanString"],
     verus=[], trust=[], not_covered=["reference-count overflow arm (needs 2^63 handles)"])

prop("C09", level="proof",
     claim="from_str / from_static_str / from_char / from_bool / with_capacity / conversions: text <= 16 bytes => no allocator call and inline "
           "storage; longer => exactly one alloc with capacity == len (allocation size 16 + len); inline edits that stay <= 16 bytes "
           "perform no allocator call (push_str, insert_str, pop, remove, retain, truncate, clear on every well-formed inline value).",
     functions=REPR_CTOR + ["From<&str>", "From<String>", "From<&String>", "From<Box<str>>", "From<Cow<str>>", "FromStr", "ToLeanString (integers: dispatch)"],
     verus=[], trust=[], bounded_notes=[{"what": "conversion constructors: source text <= 20 bytes (String machinery in the harness); they are one Repr::from_str each"}],
     not_covered=["32-bit inline limit of 8 bytes"])

prop("C10", level="proof",
     claim="from_static_str never allocates and points at the caller's bytes (len > 16); clone/pop/truncate/clear keep the pointer without "
           "allocator calls; reserve/ensure_modifiable/push_str/insert_str/remove/retain move to inline or a fresh exclusive block with the "
           "same text; F-static in every harness: the borrowed object (writable in the model) is byte-identical afterwards.",
     functions=["Repr::from_static_str", "StaticBuffer::new", "StaticBuffer::set_len"] + REPR_CORE + REPR_EDIT, verus=[], trust=[COMPOSE],
     not_covered=[])

prop("C11", level="proof",
     claim="capacity() == ghost capacity >= len for every well-formed value; with_capacity(n): capacity >= n; reserve(n) Ok: capacity >= len + n "
           "and exclusive; push_str/insert_str into an exclusive string with room: no allocator call, pointer and capacity unchanged.",
     functions=["Repr::capacity", "Repr::with_capacity", "Repr::reserve", "Repr::push_str", "Repr::insert_str", "Repr::as_slice_mut"],
     verus=[], trust=[COMPOSE], not_covered=[])

prop("C12", level="proof",
     claim="amortized_growth verified twice on its real text (Kani contract over the full usize domain; Verus with mathematical integers): "
           "== max(len + len/2, len + additional) unless saturated; every growth event of reserve (unique realloc, shared copy, "
           "static->heap, inline->heap) has new capacity == that value; push_str/insert_str reach growth only through reserve(len of "
           "argument) (call-protocol obligations); geometric-growth corollary in Verus.",
     functions=["amortized_growth", "Repr::reserve", "HeapBuffer::with_additional", "HeapBuffer::realloc", "Repr::push_str", "Repr::insert_str"],
     verus=["v_grow"], trust=[COMPOSE], not_covered=["measured reallocation counts of long push loops (corollary is arithmetic, not measured)"])

prop("C13", level="proof",
     claim="shrink_to(m) for every usize m and every storage/sharing state: text unchanged, capacity never grows (or is the inline size), >= len, "
           ">= m unless it already was below, exactly max(len, m) (or inline) when the heap capacity exceeded it - shared or not; non-heap is "
           "a no-op; F-buf; Err unchanged.",
     functions=["Repr::shrink_to", "HeapBuffer::realloc", "HeapBuffer::with_capacity", "LeanString::{try_,}shrink_to{,_fit} (delegation)"],
     verus=[], trust=[], not_covered=[])

prop("C14", level="proof",
     claim="DigitCount tables for u8..u64/i8..i64 verified in Verus on their real text against the closed form of digits10 (and that against "
           "the recursive definition); the integer writer verified in Verus on the mechanically instantiated macro body (4 stated rewrite "
           "rules) to produce sign ++ decimal digits for EVERY value of every <= 64-bit type; Kani proves the unrewritten code for the 8- "
           "and 16-bit types over their full domain and the type dispatch for one value per type.",
     functions=["DigitCount::digit_count (8 impls)", "NumToRepr::into_repr (10 integer impls)", "ToLeanString::try_to_lean_string (dispatch)"],
     verus=["v_grow", "v_num"],
     trust=["Display for integers prints sign ++ decimal digits without leading zeros (documented core behaviour)",
            "i128/u128: every value is handed unchanged to itoa::Buffer::format and its output to from_str (delegation obligations num128.*); the digits itoa produces are the dependency's (assumed); NonZero wrappers are `.get()`",
            "the four extraction rewrite rules of v_num (raw-pointer writes -> Vec writes)"],
     not_covered=["the digits produced by the itoa crate for i128 / u128"])

prop("C15", level="other",
     claim="PARTIAL - the constructors each dispatch arm calls are under contract for every value, the arm selection (castaway) and core::fmt are assumed. bool: both values; char: every scalar value against the UTF-8 encoding written from the definition; String/&str: from_str contract; "
           "LeanString: shallow clone (contract of Clone::clone; the dispatch arm itself is not run); generic Display: user Display emitting <= 3 pieces, failing after any piece or never => Err(Fmt) or "
           "the concatenation (bounded).",
     functions=["Repr::from_bool", "Repr::from_char", "ToLeanString::try_to_lean_string", "fmt::Write::write_str"],
     verus=[],
     trust=["core::fmt::write calls write_str with the pieces in order and propagates Err"],
     not_covered=["f32/f64 round-tripping: the crate only forwards ryu::Buffer::format to from_str - floating point and an external "
                  "dependency are outside this technique (not applicable); only the hand-over is under contract: every f32/f64 bit pattern reaches "
                  "ryu::Buffer::format unchanged and its output reaches Repr::from_str (float.*, structural)"])

prop("C16", level="other",
     claim="MIXED LEVEL - unbounded contract obligations where stated, otherwise BOUNDED (complete up to the stated size, not a proof beyond it). from_utf8 is parametric in the validator: with core::str::from_utf8 replaced by an arbitrary Result, Ok => text == input, Err => "
           "the validator's error, exactly one validator call (unbounded length). from_utf8_lossy / from_utf16 / from_utf16_lossy: the real "
           "loops (utf8_chunks, decode_utf16, collect) against decoding written from the Unicode definitions (maximal-subpart replacement; "
           "surrogate pairing) on ALL inputs of <= 3 bytes / <= 3 code units, with push_str / from_str / with_capacity under contract "
           "(ghost text) - bounded.",
     functions=["LeanString::from_utf8", "LeanString::from_utf8_lossy", "LeanString::from_utf16", "LeanString::from_utf16_lossy"],
     verus=[], trust=["String::from_utf8 delegates to the same core validator", "String's lossy / UTF-16 decoders implement the Unicode "
                      "definitions the specifications are written from (documented behaviour)"],
     bounded_notes=[{"what": "from_utf8_lossy: all byte strings of length <= 3; from_utf16{,_lossy}: all u16 strings of length <= 3"}],
     not_covered=["inputs to the lossy/UTF-16 decoders longer than the bound (e.g. behaviour that depends on block sizes)"])

prop("C17", level="other",
     claim="MIXED LEVEL - unbounded contract obligations where stated, otherwise BOUNDED (complete up to the stated size, not a proof beyond it). as_str()/as_bytes() are exactly (text pointer, len) of the ghost view for every representation (unbounded); ==, !=, cmp, "
           "partial_cmp, < on pairs of arbitrary well-formed handles of different storage kinds equal the bytewise lexicographic order of "
           "the ghost texts; the same against str, &str and Cow<str> in both argument orders; Hash makes exactly the two Hasher calls str makes - write(the text slice itself: pointer and length of the ghost text), "
           "write(0xff) - and Display hands the formatter's sink consecutive slices of the text itself that add up to exactly the text, "
           "for every storage kind and SYMBOLIC length (unbounded: hash_any_*, display_any_*, pointer-recording Hasher / fmt::Write, "
           "nothing walks the bytes); byte-copying re-checks of Hash and Display and all comparisons on texts <= 18 / 6 bytes "
           "(memcmp is unwound - bounded).",
     functions=["PartialEq (9 impls)", "Eq", "Ord", "PartialOrd", "Hash", "Display", "Deref", "AsRef<str>", "AsRef<[u8]>", "Borrow<str>"],
     verus=[], trust=["Debug delegates to str's Debug exactly as Display does (same shape, not run)"],
     bounded_notes=[{"what": "==, !=, cmp, partial_cmp, < (memcmp cannot be kept symbolic and <str as PartialEq>::eq cannot be stubbed): texts <= 18 bytes; byte-copying re-checks hash_one / display_one: 18 / 6 bytes"}],
     not_covered=["format flags (width / precision / fill) - Formatter::pad is core's", "PartialEq<String> directions (identical body to the str ones)", "HashMap/BTreeMap lookups (consequence of Borrow + Eq/Hash/Ord agreement)"])

prop("C19", level="other",
     claim="MIXED LEVEL - unbounded contract obligations where stated, otherwise BOUNDED (complete up to the stated size, not a proof beyond it). Built with --features serde,arbitrary in the scratch copy. Serialize: exactly one serialize_str of exactly as_str() (pointer and "
           "length) and no other serializer call - what str/String do; Deserialize: requests a string, and each of visit_str / "
           "visit_borrowed_str / visit_bytes / visit_borrowed_bytes yields exactly the input text (symbolic length), bytes being rejected "
           "with one invalid_value error exactly when the core validator rejects them (validator replaced by an arbitrary verdict); "
           "Arbitrary: arbitrary / arbitrary_take_rest / size_hint equal <&str>'s on the same bytes (bounded).",
     functions=["Serialize for LeanString", "Deserialize for LeanString (LeanStringVisitor)", "Arbitrary for LeanString"],
     verus=[],
     trust=["what serde_json / other formats do with one serialize_str call is serde's", "String's own Serialize/Deserialize being the same "
            "single serialize_str / string visitor (documented serde behaviour)"],
     bounded_notes=[{"what": "Serialize is unbounded (serde_serialize_any_*: symbolic sizes, pointer-recording Serializer; serde_serialize re-checks it on texts <= 18 bytes incl. inline); Arbitrary: Unstructured over <= 4 bytes with an ASCII-only validator"}],
     not_covered=["escapes / framing of concrete formats (serde_json)"])

prop("C20", level="proof",
     claim="const size/alignment assertions are discharged by every build of the scratch copy; every well-formed value has last byte <= 0xD1 "
           "(closure obligations *.wf), Some(r).is_some() and the round trip for every well-formed r incl. all 2^128-ish inline values; "
           "the C01-C03 contract suite is re-run with debug assertions off (thorough tier).",
     functions=["Repr (layout)", "Option<Repr> niche"] + REPR_CORE, verus=[],
     trust=["source-level verification: optimised-vs-unoptimised codegen equivalence is the compiler's"],
     not_covered=["32-bit layouts", "codegen equivalence of release builds", "--no-default-features / --all-features builds differ only in items not under contract (checked syntactically)"])

PROPS["C20"]["level"] = "proof"


def hist_correspondence(verus_dir, discharged_names):
    """every `//@case X <- a b c` of v_hist.rs must name >= 1 obligation discharged in this run"""
    missing = []
    p = os.path.join(verus_dir, "v_hist.rs")
    if not os.path.exists(p):
        return ["v_hist.rs missing"]
    for line in open(p):
        m = re.match(r"//@case\s+(\w+)\s*<-\s*(.*)$", line)
        if m:
            names = m.group(2).split()
            if not any(n in discharged_names for n in names):
                missing.append("V-HIST case %s: none of its obligations ran and was discharged in this run" % m.group(1))
    return missing
