"""Per-property metadata (what is claimed, by which units, on what trusted base) and the
evidence writer. The obligations themselves live in /verif/kani/*.rs (`obl!`) and
/verif/verus/*.rs; nothing here decides anything."""
import os
import re
import vlib

COMMON_TRUST = [
    "Kani 0.68.0 / CBMC 6.11.0 / MiniSat2 (bit-precise symbolic execution + SAT; per-harness solver in coverage.harnesses[].backend), rustc front end",
    "Kani's models of __rust_alloc/__rust_realloc/__rust_dealloc, memcpy/memmove, atomics executed sequentially",
    "allocator stubs v_alloc/v_realloc/v_dealloc in kani/verif_repr.rs (thin wrappers; refuse any request nondeterministically, always above 2^46 bytes)",
    "generators any_inline/any_static/any_heap produce exactly the well-formed states (wf); pre-state capacity <= 2^16 (quick) / 2^40 (thorough)",
    "64-bit little-endian target only: all target_pointer_width=32 code (length-on-heap, ALLOC_LIMIT) is outside reach",
    "reference counts <= isize::MAX in pre-states (the overflow arm of make_shallow_clone is not under contract)",
]

VERUS_TRUST = ["Verus 0.2026.09.13 / Z3 (vstd), machine integers as declared in the extracted Rust types"]

PROPS = {}


def prop(pid, **kw):
    PROPS[pid] = kw


def scan_assumptions():
    """mechanical list of every assume / stub / external_body / admit in /verif (DESIGN 3.10)"""
    out = []
    for d in ("kani", "verus", "shim"):
        root = os.path.join(vlib.VERIF, d)
        for dp, _, fs in os.walk(root):
            for f in sorted(fs):
                if not f.endswith(".rs"):
                    continue
                p = os.path.join(dp, f)
                n = {}
                for line in open(p):
                    for pat, key in ((r"kani::assume\(", "kani::assume"), (r"#\[kani::stub\(", "kani::stub"),
                                     (r"kani::stub_verified", "stub_verified"), (r"external_body", "external_body"),
                                     (r"assume_specification", "assume_specification"), (r"\badmit\(", "admit"),
                                     (r"\bassume\(", "assume")):
                        if re.search(pat, line) and not line.strip().startswith("//"):
                            if key == "assume" and "kani::assume" in line:
                                continue
                            n[key] = n.get(key, 0) + 1
                if n:
                    out.append("%s: %s" % (os.path.relpath(p, vlib.VERIF), ", ".join("%s x%d" % kv for kv in sorted(n.items()))))
    return out


def evidence(pid, tier, seed, meta, obligations, n_obl, n_dis, harness_rows, verus_rows, undecided, new_failed,
             known_hit, wall, src_hash, injected, canary_ok):
    samples = []
    seen = set()
    for o in obligations:
        if o.get("kind") == "contract" and o["name"] not in seen:
            seen.add(o["name"])
            samples.append({"obligation": o["name"], "harness": o["harness"], "status": o["status"], "kind": o["kind"]})
        if len(samples) >= 12:
            break
    for o in obligations:
        if o.get("kind") in ("auto", "verus") and len(samples) < 16:
            samples.append({"obligation": o["name"], "harness": o["harness"], "status": o["status"], "kind": o["kind"]})
    contract_names = sorted(set(o["name"] for o in obligations if o.get("kind") == "contract"))
    bounded = [r for r in harness_rows if r["class"] == "B"]
    level = meta.get("level", "proof")
    cov = {
        "obligations": n_obl,
        "discharged": n_dis,
        "checker_cmd": "cd <scratch copy of /repo + injected cfg(kani) modules> && cargo kani -Z stubbing -Z function-contracts -Z unstable-options --harness <h> --exact --no-assertion-reach-checks --solver minisat ; verus <extracted>.rs --output-json",
        "trusted_base": COMMON_TRUST + (VERUS_TRUST if verus_rows else []) + meta.get("trust", []),
        "explanation": meta.get("claim", ""),
        "samples": samples,
        "contract_obligations_distinct": len(contract_names),
        "contract_obligation_names": contract_names,
        "auto_obligations": sum(1 for o in obligations if o.get("kind") == "auto"),
        "verus_obligations": sum(1 for o in obligations if o.get("kind") == "verus"),
        "functions_under_contract": meta.get("functions", []),
        "harnesses": harness_rows,
        "verus_units": [{k: v for k, v in r.items() if k != "obligations"} for r in verus_rows],
        "bounded": [{"harness": r["harness"], "bound": r["bound"]} for r in bounded] + meta.get("bounded_notes", []),
        "proved_unbounded_harnesses": sum(1 for r in harness_rows if r["class"] == "U"),
        "bounded_harnesses": len(bounded),
        "solver_time_s": round(sum(r["solver_s"] for r in harness_rows), 1),
        "source_hash": src_hash,
        "injected": injected,
        "canary_failed_as_expected": canary_ok,
        "undecided": undecided,
        "failed": [{"obligation": f["name"], "harness": f["harness"]} for f in new_failed],
        "known_findings_hit": [{"obligation": f["name"], "harness": f["harness"], "what": k["what"]} for f, k in known_hit],
        "not_covered": meta.get("not_covered", []),
    }
    return {
        "property_id": pid,
        "tier": tier,
        "seed": seed,
        "level": level,
        "coverage": cov,
        "assumptions": scan_assumptions() + meta.get("assumptions", []),
        "wall_s": wall,
        "violations": len(set((f["name"], f["harness"]) for f in new_failed)),
    }


# ----------------------------------------------------------------------------------------
# the properties
# ----------------------------------------------------------------------------------------

CORE_FNS = [
    "Repr::reserve", "Repr::ensure_modifiable", "Repr::make_shallow_clone", "Repr::replace_inner",
]

prop("C02", level="proof",
     claim="Clone-on-write isolation as frame clauses of every mutator contract: when the pre-state block has rc > 1 the block's "
           "header capacity, liveness and every byte in [0, capacity) are unchanged and rc moves by exactly the handles that left/joined; "
           "borrowed static objects are byte-identical after every operation; V-HIST lifts this to all histories.",
     functions=CORE_FNS, verus=[], trust=[], not_covered=[])
