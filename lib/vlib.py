#!/usr/bin/env python3
"""Shared machinery of the lean_string contract checks.

  * scratch copy of /repo's working tree + injection of the cfg(kani) contract modules
  * registry of harnesses parsed from the `// @harness` lines of /verif/kani/*.rs
  * parallel per-harness `cargo kani` runs, per-check report parser
  * Verus runs (extraction is in extract.py)
  * classification of results into held / violation / undecided
"""
import concurrent.futures
import hashlib
import json
import os
import re
import resource
import shutil
import signal
import subprocess
import sys
import tempfile
import time

HERE = os.path.dirname(os.path.abspath(__file__))
VERIF = os.path.dirname(HERE)
REPO = os.environ.get("VERIF_REPO", "/repo")
KANI_DIR = os.path.join(VERIF, "kani")

# injected file -> (destination inside the scratch crate, file that declares it, declaration)
INJECT = {
    "verif_repr.rs": ("src/repr/verif_repr.rs", "src/repr.rs", "#[cfg(kani)]\npub(crate) mod verif_repr;\n", "repr::verif_repr"),
    "verif_ops.rs": ("src/repr/verif_ops.rs", "src/repr.rs", "#[cfg(kani)]\npub(crate) mod verif_ops;\n", "repr::verif_ops"),
    "verif_edit.rs": ("src/repr/verif_edit.rs", "src/repr.rs", "#[cfg(kani)]\npub(crate) mod verif_edit;\n", "repr::verif_edit"),
    "verif_mod.rs": ("src/repr/verif_mod.rs", "src/repr.rs", "#[cfg(kani)]\npub(crate) mod verif_mod;\n", "repr::verif_mod"),
    "verif_hb.rs": ("src/repr/heap_buffer/verif_hb.rs", "src/repr/heap_buffer.rs", "#[cfg(kani)]\nmod verif_hb;\n", "repr::heap_buffer::verif_hb"),
    "verif_num.rs": ("src/repr/num_to_repr/verif_num.rs", "src/repr/num_to_repr.rs", "#[cfg(kani)]\nmod verif_num;\n", "repr::num_to_repr::verif_num"),
    "verif_lib.rs": ("src/verif_lib.rs", "src/lib.rs", "#[cfg(kani)]\nmod verif_lib;\n", "verif_lib"),
    "verif_conv.rs": ("src/verif_conv.rs", "src/lib.rs", "#[cfg(kani)]\nmod verif_conv;\n", "verif_conv"),
    "verif_e2e.rs": ("src/verif_e2e.rs", "src/lib.rs", "#[cfg(kani)]\nmod verif_e2e;\n", "verif_e2e"),
    "verif_feat.rs": ("src/verif_feat.rs", "src/lib.rs", "#[cfg(kani)]\nmod verif_feat;\n", "verif_feat"),
    "verif_conc.rs": ("src/repr/verif_conc.rs", "src/repr.rs", "#[cfg(kani)]\nmod verif_conc;\n", "repr::verif_conc"),
}

EXIT_HELD, EXIT_VIOLATION, EXIT_UNDECIDED = 0, 1, 2


class Undecided(Exception):
    """anchor lost / build error / timeout / OOM / vacuity guard: exit 2, never an alarm"""


def log(*a):
    print(*a, file=sys.stderr, flush=True)


# ----------------------------------------------------------------------------------------
# registry
# ----------------------------------------------------------------------------------------

HARNESS_RE = re.compile(r"^\s*//\s*@harness\s+(.*)$")


def parse_kv(s):
    out = {}
    for m in re.finditer(r'(\w+)=("([^"]*)"|\S+)', s):
        v = m.group(3) if m.group(3) is not None else m.group(2)
        out[m.group(1)] = v
    return out


def load_registry():
    """every `// @harness name=.. props=.. [class=U|B] [tier=quick|thorough] [covers=a,b]
    [expect_fail="regex"] [timeout=s] [mem=GB] [cfg=loom|nodebug] [features=..]` line"""
    reg = {}
    for fn in sorted(os.listdir(KANI_DIR)):
        if not fn.endswith(".rs") or fn not in INJECT:
            continue
        modpath = INJECT[fn][3]
        lines = open(os.path.join(KANI_DIR, fn)).read().split("\n")
        for i, line in enumerate(lines):
            m = HARNESS_RE.match(line)
            if not m:
                continue
            kv = parse_kv(m.group(1))
            name = kv["name"]
            # the harness function must follow
            found = False
            for j in range(i + 1, min(i + 12, len(lines))):
                if re.match(r"\s*(pub(\(crate\))?\s+)?fn\s+%s\s*\(" % re.escape(name), lines[j]) or \
                        re.match(r"\s*\w+!\(\s*%s\s*[,)]" % re.escape(name), lines[j]):
                    found = True
                    break
            if not found:
                raise Undecided("registry: @harness %s in %s is not followed by fn %s" % (name, fn, name))
            h = {
                "name": name,
                "file": fn,
                "full": modpath + "::" + name,
                "props": kv.get("props", "").split(","),
                "class": kv.get("class", "U"),
                "tier": kv.get("tier", "quick"),
                "covers": [c for c in kv.get("covers", "").split(",") if c],
                "expect_fail": kv.get("expect_fail"),
                "timeout": int(kv.get("timeout", "900")),
                "mem": int(kv.get("mem", "12")),
                "cfg": kv.get("cfg", ""),
                "features": kv.get("features", ""),
                "unwind": kv.get("unwind"),
                "bound": kv.get("bound"),
                "fn": kv.get("fn", ""),
                "solver": kv.get("solver", "minisat"),
                "hist": kv.get("hist", "no") == "yes",
                # big=yes: the pre-state size bound is MAX_CAP, so the thorough tier repeats the
                # harness with MAX_CAP = 2^40
                "big": kv.get("big", "no") == "yes",
            }
            if name in reg:
                raise Undecided("registry: duplicate harness " + name)
            reg[name] = h
            # `nodebug=quick|thorough`: the same harness again with debug assertions compiled out
            # (C20: same behaviour in both profiles; unreachable_unchecked arms really unreachable)
            if kv.get("nodebug"):
                v = dict(h)
                v["name"] = name + "@nodebug"
                v["props"] = ["C20"]
                v["tier"] = kv["nodebug"]
                v["cfg"] = "nodebug"
                v["all_obls"] = True   # every clause of the contract must also hold in this profile
                v["covers"] = []
                v["hist"] = False
                v["big"] = False
                reg[v["name"]] = v
    return reg


def obligations_in_sources():
    """name -> set(props) for every obl!(.., "name", "props") in the injected files"""
    out = {}
    for fn in sorted(os.listdir(KANI_DIR)):
        if not fn.endswith(".rs"):
            continue
        src = open(os.path.join(KANI_DIR, fn)).read()
        for m in re.finditer(r's?obl!\(\s*(?:[^"]|"(?!,))*?,\s*"([\w\.\-]+)"\s*,\s*"([\w,]+)"\s*,?\s*\)', src, re.S):
            out.setdefault(m.group(1), set()).update(m.group(2).split(","))
    return out


# ----------------------------------------------------------------------------------------
# scratch copy + injection
# ----------------------------------------------------------------------------------------

def tree_hash(root, rels):
    h = hashlib.sha256()
    files = {}
    for rel in rels:
        p = os.path.join(root, rel)
        if os.path.isdir(p):
            for d, _, fs in sorted(os.walk(p)):
                for f in sorted(fs):
                    q = os.path.join(d, f)
                    files[os.path.relpath(q, root)] = hashlib.sha256(open(q, "rb").read()).hexdigest()
        elif os.path.exists(p):
            files[rel] = hashlib.sha256(open(p, "rb").read()).hexdigest()
    for k in sorted(files):
        h.update((k + ":" + files[k] + "\n").encode())
    return h.hexdigest(), files


class Scratch:
    def __init__(self, tag="kani"):
        base = os.environ.get("VERIF_SCRATCH_BASE", tempfile.gettempdir())
        self.dir = tempfile.mkdtemp(prefix="lsv-%s-" % tag, dir=base)
        self.crate = os.path.join(self.dir, "crate")
        self.injected = []
        self.src_hash = None
        self.src_files = None

    def populate(self):
        os.makedirs(self.crate)
        for rel in ("src", "Cargo.toml", "Cargo.lock", "README.md"):
            s = os.path.join(REPO, rel)
            d = os.path.join(self.crate, rel)
            if os.path.isdir(s):
                shutil.copytree(s, d)
            elif os.path.exists(s):
                shutil.copy2(s, d)
            elif rel == "Cargo.lock":
                # Cargo.lock is git-ignored in this repository: a git worktree of it has none
                if os.path.exists("/repo/Cargo.lock"):
                    shutil.copy2("/repo/Cargo.lock", d)
                else:
                    subprocess.run(["cargo", "generate-lockfile", "--offline"], cwd=self.crate,
                                   env=dict(os.environ, CARGO_NET_OFFLINE="true"), stdout=subprocess.DEVNULL, stderr=subprocess.DEVNULL)
            else:
                raise Undecided("anchor lost: %s missing in %s" % (rel, REPO))
        self.src_hash, self.src_files = tree_hash(self.crate, ["src", "Cargo.toml"])
        os.makedirs(os.path.join(self.crate, ".cargo"), exist_ok=True)
        with open(os.path.join(self.crate, ".cargo", "config.toml"), "w") as f:
            f.write("[net]\noffline = true\n")

    def inject(self, files=None):
        for fn, (dest, parent, decl, _) in INJECT.items():
            src = os.path.join(KANI_DIR, fn)
            if not os.path.exists(src):
                continue
            if files is not None and fn not in files:
                continue
            pp = os.path.join(self.crate, parent)
            if not os.path.exists(pp):
                raise Undecided("anchor lost: %s (declares %s) no longer exists" % (parent, fn))
            dp = os.path.join(self.crate, dest)
            os.makedirs(os.path.dirname(dp), exist_ok=True)
            shutil.copy2(src, dp)
            with open(pp, "a") as f:
                f.write("\n" + decl)
            self.injected.append({"file": dest, "declared_in": parent, "added_lines": decl.strip().split("\n")})

    def add_loom_shim(self):
        ct = os.path.join(self.crate, "Cargo.toml")
        s = open(ct).read()
        s += '\n[patch.crates-io]\nloom = { path = "%s" }\n' % os.path.join(VERIF, "shim", "loom")
        open(ct, "w").write(s)
        self.injected.append({"file": "Cargo.toml", "added_lines": ["[patch.crates-io] loom = {path = /verif/shim/loom}"]})

    def cleanup(self):
        if os.environ.get("VERIF_KEEP_SCRATCH"):
            log("scratch kept:", self.dir)
            return
        shutil.rmtree(self.dir, ignore_errors=True)


# ----------------------------------------------------------------------------------------
# Kani
# ----------------------------------------------------------------------------------------

CHECK_RE = re.compile(
    r"^Check (\d+): (.+)\n\t - Status: (\w+)\n\t - Description: \"(.*)\"\n\t - Location: (.*)$", re.M
)


def parse_kani_output(text):
    checks = []
    for m in CHECK_RE.finditer(text):
        cid = m.group(2)
        cls = "cover" if re.search(r"\.cover\.\d+$", cid) else "assert"
        checks.append({"id": cid, "status": m.group(3), "desc": m.group(4), "loc": m.group(5), "class": cls})
    verdict = None
    m = re.search(r"^VERIFICATION:- (\w+)", text, re.M)
    if m:
        verdict = m.group(1)
    vt = None
    m = re.search(r"^Verification Time: ([\d\.]+)s", text, re.M)
    if m:
        vt = float(m.group(1))
    solver = sum(float(x) for x in re.findall(r"^Runtime decision procedure: ([\d\.]+)s", text, re.M))
    stubs = re.findall(r"^\s+- Stub: (.*)$", text, re.M)
    return {"checks": checks, "verdict": verdict, "verification_time": vt, "solver_time": solver, "stubs": stubs}


def _limits(mem_gb):
    def f():
        os.setsid()
        if mem_gb:
            b = mem_gb * (1 << 30)
            resource.setrlimit(resource.RLIMIT_AS, (b, b))
    return f


def kani_cmd(h, extra=()):
    cmd = ["cargo", "kani", "-Z", "stubbing", "-Z", "function-contracts", "-Z", "unstable-options",
           "--harness", h["full"], "--exact", "--output-format", "regular", "--no-assertion-reach-checks"]
    cmd += ["--solver", h.get("solver") or "minisat"]
    if h.get("cfg"):
        cmd += ["--target-dir", "target-" + re.sub(r"\W", "_", h["cfg"])]
    if h.get("features"):
        cmd += ["--features", h["features"]]
    if h.get("unwind"):
        cmd += ["--default-unwind", str(h["unwind"])]
    cmd += list(extra)
    return cmd


def kani_env(h):
    env = dict(os.environ)
    env["CARGO_NET_OFFLINE"] = "true"
    flags = []
    cfgs = h.get("cfg", "").split("+") if h.get("cfg") else []
    if "loom" in cfgs:
        flags.append("--cfg loom")
    if "nodebug" in cfgs:
        flags.append("-C debug-assertions=off")
    if "big" in cfgs:
        env["VERIF_MAX_CAP_LOG2"] = "40"
    else:
        env.pop("VERIF_MAX_CAP_LOG2", None)
    if flags:
        env["RUSTFLAGS"] = " ".join(flags)
    else:
        env.pop("RUSTFLAGS", None)
    return env


def run_harness(scratch, h, logdir, extra=(), suffix=""):
    t0 = time.time()
    cmd = kani_cmd(h, extra)
    logp = os.path.join(logdir, h["name"].replace("@", "_") + suffix + ".log")
    status = "done"
    with open(logp, "w") as lf:
        p = subprocess.Popen(cmd, cwd=scratch.crate, stdout=lf, stderr=subprocess.STDOUT,
                             env=kani_env(h), preexec_fn=_limits(h.get("mem", 12)))
        try:
            rc = p.wait(timeout=h.get("timeout", 900))
        except subprocess.TimeoutExpired:
            status = "timeout"
            try:
                os.killpg(p.pid, signal.SIGKILL)
            except ProcessLookupError:
                pass
            p.wait()
            rc = -9
    text = open(logp, errors="replace").read()
    res = parse_kani_output(text)
    if "@big" in h["name"] and res.get("verdict") == "FAILED" and not res["checks"]:
        res["status"] = "oom"
    res.update({"harness": h["name"], "wall_s": round(time.time() - t0, 2), "rc": rc, "log": logp,
                "cmd": " ".join(cmd), "status": status})
    if status == "done" and re.search(r"^Out of memory$|ran out of memory|run out of memory", text, re.M):
        # CBMC could not build a witness trace (huge symbolic object): the per-check report is
        # incomplete and the printed verdict must not be trusted
        res["status"] = "oom"
        res["sat_seen"] = "instance is SATISFIABLE" in text
        res["tail"] = text[-1500:]
    elif status == "done" and res["verdict"] is None:
        if re.search(r"error(\[E\d+\])?:|could not compile", text) and "Checking harness" not in text:
            res["status"] = "build_error"
        elif re.search(r"out of memory|std::bad_alloc|Killed|memory exhausted|SIGKILL", text, re.I) or rc in (-9, 137, -6, 134):
            res["status"] = "oom"
        elif "no harnesses matched" in text.lower() or "No proof harnesses" in text:
            res["status"] = "anchor_lost"
        else:
            res["status"] = "crash"
        res["tail"] = text[-3000:]
    return res


def run_harnesses(scratch, hs, logdir, jobs=None):
    os.makedirs(logdir, exist_ok=True)
    jobs = jobs or int(os.environ.get("VERIF_JOBS", "16"))
    if not hs:
        return []
    # compile once sequentially with the first harness' configuration so that build errors are
    # reported once and dependencies are built before the pool starts
    results = []
    groups = {}
    for h in hs:
        groups.setdefault((h.get("cfg", ""), h.get("features", "")), []).append(h)
    for (cfg, feat), g in groups.items():
        h0 = g[0]
        cmd = kani_cmd(h0, ["--only-codegen"])
        p = subprocess.run(cmd, cwd=scratch.crate, env=kani_env(h0), stdout=subprocess.PIPE,
                           stderr=subprocess.STDOUT, text=True)
        if p.returncode != 0:
            open(os.path.join(logdir, "build-%s-%s.log" % (cfg or "default", feat or "default")), "w").write(p.stdout)
            raise Undecided("build error in scratch copy (cfg=%s features=%s):\n%s" % (cfg, feat, p.stdout[-4000:]))
    # longest first
    hs = sorted(hs, key=lambda h: -h.get("timeout", 900))
    with concurrent.futures.ThreadPoolExecutor(max_workers=jobs) as ex:
        futs = {ex.submit(run_harness, scratch, h, logdir): h for h in hs}
        for fu in concurrent.futures.as_completed(futs):
            r = fu.result()
            log("  [kani] %-40s %-8s %-10s %6.1fs  checks=%d" % (
                r["harness"], r["status"], r["verdict"], r["wall_s"], len(r["checks"])))
            results.append(r)
    # second chance for harnesses that ran out of memory: alone, 40 GB, CaDiCaL (lighter than
    # MiniSat on memory); still out of memory => undecided
    retry = [r for r in results if r["status"] == "oom"]
    # (no point in retrying when a semantic obligation has already failed elsewhere: the run is a
    # violation whatever the retried harnesses say)
    already_violated = any(c["status"] == "FAILURE" and OBL_RE.match(c["desc"]) and not OBL_RE.match(c["desc"]).group(3)
                           for r in results for c in r["checks"])
    if retry and not already_violated and not os.environ.get("VERIF_NO_RETRY"):
        byname = {h["name"]: h for h in hs}
        for r in retry[:int(os.environ.get("VERIF_MAX_RETRY", "3"))]:
            h = dict(byname[r["harness"]])
            h["mem"] = 40
            h["solver"] = "cadical"
            h["timeout"] = max(h.get("timeout", 900), 1500)
            r2 = run_harness(scratch, h, logdir, suffix=".retry")
            r2["harness"] = r["harness"]
            log("  [kani] %-40s %-8s %-10s %6.1fs  checks=%d (retry: 40 GB, cadical)" % (
                r2["harness"], r2["status"], r2["verdict"], r2["wall_s"], len(r2["checks"])))
            results[results.index(r)] = r2
    return results


OBL_RE = re.compile(r"^OBL:([\w\.\-]+)\|([\w,]+)(\|S)?$")


def classify(h, res, prop):
    """Split the checks of one harness run into obligations for `prop`.

    returns dict(obligations=[..], failed=[..], undecided=[..], covers_missing=[..])
    an obligation record: {name, harness, status, kind: contract|auto, where}
    """
    out = {"obligations": [], "failed": [], "undecided": [], "covers_missing": [], "expected_failures": 0}
    if res["status"] != "done":
        out["undecided"].append("%s: %s" % (h["name"], res["status"]))
        return out
    exp = re.compile(h["expect_fail"]) if h.get("expect_fail") else None
    seen_cov = {}
    for c in res["checks"]:
        if c["class"] == "cover":
            seen_cov.setdefault(c["desc"], []).append(c["status"])
            continue
        m = OBL_RE.match(c["desc"])
        if m:
            name, props = m.group(1), m.group(2).split(",")
            if prop is not None and prop not in props and not h.get("all_obls"):
                # contract clause of another property: still a defect signal but reported there
                continue
            rec = {"name": name, "harness": h["name"], "status": c["status"], "kind": "contract", "where": c["loc"],
                   "structural": bool(m.group(3))}
        else:
            if "VERIF-INTERNAL" in c["desc"]:
                if c["status"] == "FAILURE":
                    out["undecided"].append("%s: %s" % (h["name"], c["desc"]))
                continue
            if c["status"] == "FAILURE" and exp is not None and exp.search(c["desc"] + " @ " + c["loc"]):
                out["expected_failures"] += 1
                continue
            fn = c["id"].rsplit(".", 2)[0]
            rec = {"name": "auto:%s:%s" % (fn, c["desc"][:90]), "harness": h["name"], "status": c["status"],
                   "kind": "auto", "where": c["loc"]}
        out["obligations"].append(rec)
        if c["status"] == "FAILURE":
            out["failed"].append(rec)
        elif c["status"] not in ("SUCCESS", "UNREACHABLE"):
            out["undecided"].append("%s: %s is %s" % (h["name"], rec["name"], c["status"]))
    for cv in h.get("covers", []):
        st = seen_cov.get(cv)
        if not st or "SATISFIED" not in st:
            out["covers_missing"].append("%s: cover %s is %s" % (h["name"], cv, st))
    if exp is not None and out["expected_failures"] == 0:
        out["undecided"].append("%s: expected failing check (%s) did not fail - harness no longer reaches the panic" % (h["name"], h["expect_fail"]))
    return out


# ----------------------------------------------------------------------------------------
# Verus
# ----------------------------------------------------------------------------------------

def run_verus(path, logdir, timeout=600):
    os.makedirs(logdir, exist_ok=True)
    t0 = time.time()
    cmd = ["verus", path, "--output-json", "--time", "--num-threads", "8"]
    try:
        p = subprocess.run(cmd, stdout=subprocess.PIPE, stderr=subprocess.PIPE, text=True, timeout=timeout,
                           cwd=os.path.dirname(path))
    except subprocess.TimeoutExpired:
        return {"file": path, "status": "timeout", "wall_s": time.time() - t0, "verified": 0, "errors": 0, "cmd": " ".join(cmd)}
    open(os.path.join(logdir, os.path.basename(path) + ".verus.log"), "w").write(p.stdout + "\n----\n" + p.stderr)
    res = {"file": path, "cmd": " ".join(cmd), "wall_s": round(time.time() - t0, 2), "rc": p.returncode,
           "stderr": p.stderr[-6000:]}
    try:
        j = json.loads(p.stdout)
    except Exception:
        res.update({"status": "crash", "verified": 0, "errors": 0})
        return res
    vr = j.get("verification-results", {})
    res["verified"] = vr.get("verified", 0)
    res["errors"] = vr.get("errors", 0)
    res["success"] = vr.get("success", False)
    tm = j.get("times-ms", {})
    res["smt_ms"] = (tm.get("smt", {}) or {}).get("total") if isinstance(tm.get("smt"), dict) else None
    res["total_ms"] = tm.get("total")
    if vr.get("encountered-vir-error") or vr.get("encountered-error") or (p.returncode != 0 and res["errors"] == 0) or not vr:
        res["status"] = "error"
    else:
        res["status"] = "done"
    # failed items, from stderr diagnostics
    failed = []
    for m in re.finditer(r"^error(?:\[E\d+\])?: (.*)\n\s+--> ([^\n]*)", p.stderr, re.M):
        failed.append({"msg": m.group(1), "at": m.group(2)})
    res["failed_items"] = failed
    return res
