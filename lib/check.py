#!/usr/bin/env python3
"""./check <property-id> [--tier quick|thorough] [--replay FILE]

exit 0  every obligation generated for the property from /repo's current tree was discharged
exit 1  a named obligation failed:  VIOLATION property=<id> replay=<path>[ no-failing-input-found]
exit 2  undecided (anchor lost, build error, unsupported construct, timeout, OOM, vacuity guard)
"""
import fnmatch
import json
import os
import re
import sys
import time

sys.path.insert(0, os.path.dirname(os.path.abspath(__file__)))
import vlib
import props as P
from vlib import log, Undecided


def load_known():
    known, fixed = [], []
    p = os.path.join(vlib.VERIF, "known-findings.txt")
    if not os.path.exists(p):
        return known, fixed
    for line in open(p):
        line = line.strip()
        if line.startswith("KNOWN-FINDING:"):
            m = re.match(r"KNOWN-FINDING:\s*property=(\S+)\s+obligation=(\S+)\s+harness=(\S+)\s*::\s*(.*)$", line)
            if m:
                known.append({"property": m.group(1), "obligation": m.group(2), "harness": m.group(3), "what": m.group(4)})
        elif line.startswith("fixed:"):
            fixed.append(line)
    return known, fixed


def select_harnesses(reg, prop, tier, with_hist=False):
    hs = []
    for h in reg.values():
        if prop not in h["props"] and "*" not in h["props"] and not (with_hist and h.get("hist")):
            continue
        if h["tier"] == "thorough" and tier != "thorough":
            continue
        hs.append(h)
    if tier == "thorough":
        # class-U harnesses are repeated at the 2^40 size bound (compile-time switch), reach twins
        # excepted (satisfied covers need witness traces, which CBMC cannot build at that size)
        for h in list(hs):
            if h["class"] == "U" and h.get("big") and not h["name"].endswith("_reach"):
                b = dict(h)
                b["name"] = h["name"] + "@big"
                b["cfg"] = (h["cfg"] + "+big") if h["cfg"] else "big"
                b["timeout"] = max(h["timeout"], 2400)
                b["covers"] = []
                hs.append(b)
    return hs


def main():
    args = sys.argv[1:]
    if not args:
        print(__doc__)
        return 2
    prop = args[0]
    tier = os.environ.get("VERIF_TIER", "quick")
    replay = None
    i = 1
    while i < len(args):
        if args[i] == "--tier":
            tier = args[i + 1]
            i += 2
        elif args[i] == "--replay":
            replay = args[i + 1]
            i += 2
        else:
            i += 1
    if replay:
        import replay as R
        return R.replay_file(replay)
    seed = int(os.environ.get("VERIF_SEED", "0") or 0)
    if prop not in P.PROPS:
        print("unknown or not-applicable property", prop)
        return 2
    meta = P.PROPS[prop]
    t0 = time.time()
    logdir = os.path.join(vlib.VERIF, "logs", "%s-%s" % (prop, tier))
    os.makedirs(logdir, exist_ok=True)
    known, _fixed = load_known()
    sc = None
    undecided, failed, obligations, harness_rows, verus_rows = [], [], [], [], []
    covers_missing = []
    canary_ok = None
    all_discharged = set()
    src_hash = None
    injected = []
    try:
        reg = vlib.load_registry()
        hs = select_harnesses(reg, prop, tier, "v_hist" in meta.get("verus", []))
        real = [h for h in hs if h["name"] != "canary"]
        if not real and not meta.get("verus"):
            raise Undecided("no harness or lemma registered for " + prop)
        if hs:
            sc = vlib.Scratch(prop.lower())
            sc.populate()
            sc.inject()
            if any("loom" in h.get("cfg", "") for h in hs):
                sc.add_loom_shim()
                # one RUSTFLAGS set per scratch build: the canary rides along under cfg(loom)
                hs = [dict(h, cfg=h["cfg"] or "loom", features=h["features"] or "loom") for h in hs]
            src_hash, injected = sc.src_hash, sc.injected
            # one scratch per cfg would rebuild dependencies; RUSTFLAGS changes do that anyway, cargo
            # keeps the variants apart by fingerprint
            results = vlib.run_harnesses(sc, hs, logdir)
            byname = {h["name"]: h for h in hs}
            for r in results:
                h = byname[r["harness"]]
                if h["name"] == "canary":
                    fails = [c for c in r["checks"] if c["desc"].startswith("CANARY") and c["status"] == "FAILURE"]
                    canary_ok = bool(fails) and r["status"] == "done"
                    continue
                c = vlib.classify(h, r, prop)
                for o in vlib.classify(h, r, None)["obligations"]:
                    if o["kind"] == "contract" and o["status"] in ("SUCCESS", "UNREACHABLE"):
                        all_discharged.add(o["name"])
                obligations += c["obligations"]
                failed += c["failed"]
                undecided += c["undecided"]
                covers_missing += c["covers_missing"]
                harness_rows.append({
                    "harness": h["name"], "fn": h.get("fn", ""), "class": h["class"], "bound": h.get("bound") or ("cap<=2^40" if "big" in h.get("cfg", "") else None),
                    "status": r["status"], "verdict": r["verdict"], "wall_s": r["wall_s"], "solver_s": round(r.get("solver_time") or 0, 2),
                    "backend": "kani 0.68.0 / cbmc 6.11.0 / " + h.get("solver", "minisat"), "obligations": len(c["obligations"]),
                    "discharged": sum(1 for o in c["obligations"] if o["status"] in ("SUCCESS", "UNREACHABLE")),
                    "expected_panics": c["expected_failures"], "stubs": r.get("stubs", []),
                })
            if canary_ok is False:
                undecided.append("canary: the deliberately false obligation was not reported as FAILURE - the pipeline cannot see failures")
        # Verus units
        for vu in meta.get("verus", []):
            import extract
            vr = extract.run_unit(vu, logdir, tier)
            verus_rows.append(vr)
            for o in vr["obligations"]:
                obligations.append(o)
                if o["status"] == "FAILURE":
                    failed.append(o)
            undecided += vr.get("undecided", [])
        if "v_hist" in meta.get("verus", []):
            undecided += P.hist_correspondence(os.path.join(vlib.VERIF, "verus"), all_discharged)
    except Undecided as e:
        undecided.append(str(e))
    finally:
        if sc is not None:
            sc.cleanup()

    undecided += covers_missing
    # known findings
    new_failed, known_hit = [], []
    for f in failed:
        hit = None
        for k in known:
            if k["property"] == prop and fnmatch.fnmatch(f["name"], k["obligation"]) and fnmatch.fnmatch(f["harness"], k["harness"]):
                hit = k
                break
        if hit:
            known_hit.append((f, hit))
        else:
            new_failed.append(f)
    seen = set()
    for f, k in known_hit:
        key = (k["obligation"], k["harness"])
        if key in seen:
            continue
        seen.add(key)
        print("KNOWN-FINDING: property=%s %s [%s in %s]" % (prop, k["what"], f["name"], f["harness"]))

    # structural obligations carry the modular decomposition, not the property: if nothing but
    # them failed, the decomposition no longer matches the code -> undecided, never an alarm
    semantic_failed = [f for f in new_failed if not f.get("structural")]
    if new_failed and not semantic_failed:
        for n in sorted(set("%s[%s]" % (f["name"], f["harness"]) for f in new_failed))[:20]:
            undecided.append("structural obligation failed (modular decomposition does not match the code any more; no semantic obligation failed): " + n)
        new_failed = []
    wall = round(time.time() - t0, 2)
    n_obl = len(obligations)
    n_dis = sum(1 for o in obligations if o["status"] in ("SUCCESS", "UNREACHABLE", "VERIFIED"))
    ev = P.evidence(prop, tier, seed, meta, obligations, n_obl, n_dis, harness_rows, verus_rows, undecided,
                    new_failed, known_hit, wall, src_hash, injected, canary_ok)
    # runs against another tree (VERIF_REPO: seeded changes) must not overwrite the evidence of /repo
    evdir = os.environ.get("VERIF_EVIDENCE_DIR") or (os.path.join(vlib.VERIF, "evidence") if vlib.REPO == "/repo" else os.path.join(vlib.VERIF, "logs", "evidence-other-tree"))
    os.makedirs(evdir, exist_ok=True)
    with open(os.path.join(evdir, prop + ".json"), "w") as f:
        json.dump(ev, f, indent=1)

    if new_failed:
        import replay as R
        path, found = R.make_replay(prop, tier, new_failed, logdir)
        names = sorted(set("%s[%s]" % (f["name"], f["harness"]) for f in new_failed))
        for n in names[:20]:
            print("FAILED-OBLIGATION property=%s %s" % (prop, n))
        print("VIOLATION property=%s replay=%s%s" % (prop, path, "" if found else " no-failing-input-found"))
        return 1
    if undecided:
        for u in undecided[:30]:
            print("UNDECIDED property=%s %s" % (prop, u))
        return 2
    print("HELD property=%s tier=%s obligations=%d discharged=%d harnesses=%d verus_units=%d wall=%.0fs" % (
        prop, tier, n_obl, n_dis, len(harness_rows), len(verus_rows), wall))
    return 0


if __name__ == "__main__":
    sys.exit(main())
