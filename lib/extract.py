"""Verus units: mechanical extraction of real functions from /repo into a verus!{} file.

A unit is a template /verif/verus/<unit>.rs. Template directives (each on its own line):

  //@fn <name> from <repo file> [impl <Type> for <T>] [as <newname>] [self=<ident>]
  //@    requires ... / ensures ... / decreases ...     (contract lines, copied verbatim)
  //@end

The directive is replaced by the text of the named function taken from /repo's CURRENT
working tree: attributes and visibility dropped, the function renamed if `as` is given, the
return type `-> T` turned into `-> (r: T)`, the contract lines inserted between signature and
body, `self` replaced by the given identifier (trait-impl methods become free functions).
The BODY is copied byte for byte, except for the rewrite rules a `//@rewrite` block states
explicitly (used only by the integer writer, DESIGN 3.7); every rule must match exactly the
stated number of times, otherwise the unit is undecided (exit 2: "anchor lost").

Specification-only units (no //@fn directive) are lemmas over the contracts.
"""
import os
import re
import shutil
import tempfile

import vlib
from vlib import Undecided


def _match_brace(src, i):
    """src[i] == '{' -> index after the matching '}' (comments and strings skipped)"""
    depth = 0
    n = len(src)
    while i < n:
        c = src[i]
        if src.startswith("//", i):
            i = src.index("\n", i)
            continue
        if src.startswith("/*", i):
            i = src.index("*/", i) + 2
            continue
        if c == '"':
            i += 1
            while src[i] != '"':
                if src[i] == "\\":
                    i += 1
                i += 1
        elif c == "'" and re.match(r"'(\\.|[^\\'])'", src[i:i + 4]):
            i += len(re.match(r"'(\\.|[^\\'])'", src[i:i + 4]).group(0)) - 1
        elif c == "{":
            depth += 1
        elif c == "}":
            depth -= 1
            if depth == 0:
                return i + 1
        i += 1
    raise Undecided("extract: unbalanced braces")


def extract_fn(src, name, impl=None):
    """returns (signature_text_without_attrs, body_text_with_braces)"""
    scope = src
    if impl:
        m = re.search(r"impl\s+%s\s*\{" % re.escape(impl).replace(r"\ ", r"\s+"), src)
        if not m:
            raise Undecided("anchor lost: `impl %s` not found" % impl)
        end = _match_brace(src, m.end() - 1)
        scope = src[m.end():end - 1]
    ms = list(re.finditer(r"(?:pub(?:\([^)]*\))?\s+)?(?:const\s+)?(?:unsafe\s+)?fn\s+%s\s*(?:<[^>]*>)?\s*\(" % re.escape(name), scope))
    if len(ms) != 1:
        raise Undecided("anchor lost: fn %s%s found %d times" % (name, " in impl " + impl if impl else "", len(ms)))
    m = ms[0]
    b = scope.index("{", m.end())
    sig = scope[m.start():b].strip()
    end = _match_brace(scope, b)
    return sig, scope[b:end]


def extract_macro_fn(src, macro, name):
    m = re.search(r"macro_rules!\s+%s\s*\{" % re.escape(macro), src)
    if not m:
        raise Undecided("anchor lost: macro_rules! %s not found" % macro)
    end = _match_brace(src, m.end() - 1)
    scope = src[m.end():end - 1]
    ms = list(re.finditer(r"fn\s+%s\s*\(" % re.escape(name), scope))
    if len(ms) != 1:
        raise Undecided("anchor lost: fn %s found %d times in macro %s" % (name, len(ms), macro))
    b = scope.index("{", ms[0].end())
    return scope[ms[0].start():b].strip(), scope[b:_match_brace(scope, b)]


def render(template_path, repo, notes):
    t = open(template_path).read().split("\n")
    out = []
    i = 0
    while i < len(t):
        line = t[i]
        m = re.match(r"\s*//@(fn|macrofn)\s+(\w+)\s+from\s+(\S+)(.*)$", line)
        if not m:
            out.append(line)
            i += 1
            continue
        is_macro = m.group(1) == "macrofn"
        name, rel, rest = m.group(2), m.group(3), m.group(4)
        macro = None
        subst = {}
        ret = None
        if is_macro:
            mm = re.search(r"\bmacro\s+(\w+)", rest)
            macro = mm.group(1)
            ms_ = re.search(r"\bsubst\s+(\S+)", rest)
            for kv in ms_.group(1).split(","):
                k, v = kv.split("=")
                subst[k] = v
            mr_ = re.search(r"\bret=(\S+)", rest)
            ret = mr_.group(1) if mr_ else None
        impl = None
        mi = re.search(r"impl\s+(.+?)(?=\s+as\s+|\s+self=|\s*$)", rest)
        if mi:
            impl = mi.group(1).strip()
        newname = None
        ma = re.search(r"\bas\s+(\w+)", rest)
        if ma:
            newname = ma.group(1)
        selfid = None
        mself = re.search(r"self=(\w+)", rest)
        if mself:
            selfid = mself.group(1)
        contract = []
        rewrites = []
        inserts = []
        i += 1
        while i < len(t) and not re.match(r"\s*//@end", t[i]):
            mr = re.match(r"\s*//@rewrite\s+(\d+)\s+/(.*)/\s*=>\s*/(.*)/\s*$", t[i])
            mins = re.match(r"\s*//@(after|before|replace)(?:\[(\d+)/(\d+)\])?\s+`(.*)`\s*$", t[i])
            if mr:
                rewrites.append((int(mr.group(1)), mr.group(2), mr.group(3)))
            elif mins:
                # ghost annotation block: following `//@| text` lines
                block = []
                i += 1
                while i < len(t) and re.match(r"\s*//@\|", t[i]):
                    block.append(re.sub(r"^\s*//@\| ?", "", t[i]))
                    i += 1
                inserts.append((mins.group(1), mins.group(4), "\n".join(block), int(mins.group(2) or 1), int(mins.group(3) or 1)))
                continue
            else:
                mc = re.match(r"\s*//@\s?(.*)$", t[i])
                if not mc:
                    raise Undecided("template %s: bad directive line %r" % (template_path, t[i]))
                contract.append(mc.group(1))
            i += 1
        i += 1
        p = os.path.join(repo, rel)
        if not os.path.exists(p):
            raise Undecided("anchor lost: %s" % rel)
        if is_macro:
            sig, body = extract_macro_fn(open(p).read(), macro, name)
            for k, v in subst.items():
                sig = sig.replace(k, v)
                body = body.replace(k, v)
            impl = "macro %s [%s]" % (macro, ",".join("%s=%s" % kv for kv in subst.items()))
        else:
            sig, body = extract_fn(open(p).read(), name, impl)
        dropped = []
        if is_macro and selfid:
            sig = re.sub(r"\(\s*self\s*\)", "(%s: %s)" % (selfid, subst.get("$t")), sig)
            body = re.sub(r"\bself\b", selfid, body)
            dropped.append("`self` -> `%s` (trait-impl method made a free function)" % selfid)
            selfid = None
        if ret:
            sig = re.sub(r"->\s*[^\{]+$", "-> " + ret, sig)
            dropped.append("return type -> %s" % ret)
        # signature: visibility/const dropped, rename, named return
        sig2 = re.sub(r"^pub(\([^)]*\))?\s+", "", sig)
        sig2 = re.sub(r"^const\s+", "", sig2)
        if newname:
            sig2 = re.sub(r"\bfn\s+%s\b" % re.escape(name), "fn " + newname, sig2)
        if selfid:
            if not impl:
                raise Undecided("self= needs impl")
            tm = re.search(r"for\s+(\w+)$", impl)
            sig2 = re.sub(r"\(\s*self\s*\)", "(%s: %s)" % (selfid, tm.group(1)), sig2)
            sig2 = re.sub(r"\(\s*&\s*self\s*\)", "(%s: &%s)" % (selfid, tm.group(1)), sig2)
            body = re.sub(r"\bself\b", selfid, body)
            dropped.append("`self` -> `%s` (trait-impl method made a free function)" % selfid)
        sig2 = re.sub(r"->\s*([^\{]+?)\s*$", lambda mm: "-> (r: %s)" % mm.group(1).strip(), sig2)
        for cnt, pat, rep in rewrites:
            n = len(re.findall(pat, body))
            if n != cnt:
                raise Undecided("anchor lost: rewrite /%s/ matched %d times in %s, expected %d" % (pat, n, name, cnt))
            body = re.sub(pat, rep, body)
            dropped.append("rewrite x%d: /%s/ => /%s/" % (cnt, pat, rep))
        # positions are computed on the text BEFORE any annotation is inserted, then applied
        # back to front, so annotations never shift or create anchors
        edits = []
        for kind, anchor, block, k, total in inserts:
            pos = [mm.start() for mm in re.finditer(re.escape(anchor), body)]
            if len(pos) != total:
                raise Undecided("anchor lost: annotation anchor `%s` occurs %d times in %s (after rewrites), expected %d" % (anchor, len(pos), name, total))
            at = pos[k - 1]
            if kind == "after":
                edits.append((at + len(anchor), at + len(anchor), "\n" + block + "\n"))
            elif kind == "before":
                edits.append((at, at, block + "\n"))
            else:
                edits.append((at, at + len(anchor), block))
        for a0, a1, txt in sorted(edits, key=lambda e: -e[0]):
            body = body[:a0] + txt + body[a1:]
        if inserts:
            dropped.append("%d ghost annotation blocks inserted (invariants, proof blocks, ghost lets): no executable code" % len(inserts))
        out.append("// ---- extracted from %s: fn %s%s (body verbatim%s) ----" % (
            rel, name, " in impl " + impl if impl else "", "" if not rewrites else ", listed rewrites applied"))
        out.append(sig2)
        for c in contract:
            out.append("    " + c)
        out.append(body)
        notes.append({"fn": name, "from": rel, "impl": impl, "as": newname or name,
                      "dropped": ["attributes", "visibility"] + dropped})
    return "\n".join(out)


FN_RE = re.compile(r"^\s*(?:pub\s+)?(?:open\s+|closed\s+)?(?:(proof|spec|exec)\s+)?fn\s+(\w+)", re.M)


def run_unit(unit, logdir, tier):
    tp = os.path.join(vlib.VERIF, "verus", unit + ".rs")
    if not os.path.exists(tp):
        raise Undecided("verus unit %s missing" % unit)
    notes = []
    d = tempfile.mkdtemp(prefix="lsv-verus-")
    try:
        text = render(tp, vlib.REPO, notes)
        fp = os.path.join(d, unit + ".rs")
        open(fp, "w").write(text)
        os.makedirs(logdir, exist_ok=True)
        shutil.copy(fp, os.path.join(logdir, unit + ".rendered.rs"))
        # hygiene: no assume/admit/external_body in the unit
        bad = [k for k in ("assume(", "admit(", "external_body", "assume_specification") if k in re.sub(r"//[^\n]*", "", text)]
        r = vlib.run_verus(fp, logdir)
        lines = text.split("\n")
        # items that generate proof obligations: exec and proof fns
        items = []
        for m in FN_RE.finditer(text):
            kind = m.group(1) or "exec"
            if kind == "spec":
                continue
            items.append((text[:m.start()].count("\n") + 1, m.group(2), kind))
        failed_fns = set()
        und = []
        if r["status"] == "timeout":
            und.append("verus %s: timeout" % unit)
        elif r["status"] in ("crash",):
            und.append("verus %s: crashed: %s" % (unit, r.get("stderr", "")[-400:]))
        for fi in r.get("failed_items", []):
            mm = re.search(r":(\d+):\d+", fi["at"])
            ln = int(mm.group(1)) if mm else 0
            owner = None
            for (l, n, k) in items:
                if l <= ln:
                    owner = n
            if owner and "aborting due to" not in fi["msg"]:
                failed_fns.add(owner)
        if r["status"] == "error" and not failed_fns and r.get("errors", 0) == 0:
            und.append("verus %s: front-end error (unsupported construct or anchor drift): %s" % (unit, r.get("stderr", "")[-800:]))
        if bad:
            und.append("verus %s: forbidden constructs %s" % (unit, bad))
        if r.get("errors", 0) > 0 and not failed_fns:
            failed_fns.add("<unattributed>")
        obls = []
        for (l, n, k) in items:
            st = "FAILURE" if n in failed_fns else ("SUCCESS" if r["status"] == "done" or failed_fns else "UNDETERMINED")
            obls.append({"name": "verus:%s::%s" % (unit, n), "harness": unit, "status": st, "kind": "verus",
                         "output": r.get("stderr", "")[-3000:] if st == "FAILURE" else ""})
        if "<unattributed>" in failed_fns:
            obls.append({"name": "verus:%s::<unattributed>" % unit, "harness": unit, "status": "FAILURE", "kind": "verus",
                         "output": r.get("stderr", "")[-3000:]})
        if r["status"] == "done" and r.get("verified", 0) == 0:
            und.append("verus %s: zero verified items (vacuous)" % unit)
        return {"unit": unit, "status": r["status"], "verified": r.get("verified"), "errors": r.get("errors"),
                "wall_s": r.get("wall_s"), "smt_ms": r.get("smt_ms"), "cmd": r.get("cmd"), "backend": "verus 0.2026.09.13 / z3",
                "extracted": notes, "obligations": obls, "undecided": und}
    finally:
        shutil.rmtree(d, ignore_errors=True)
