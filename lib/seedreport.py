#!/usr/bin/env python3
"""seeded/RESULTS.md from seeded/*/meta.json"""
import json, os, re
root = "/verif/seeded"
rows = []
for n in sorted(os.listdir(root)):
    mp = os.path.join(root, n, "meta.json")
    if not os.path.exists(mp):
        continue
    m = json.load(open(mp))
    notes = ""
    np_ = os.path.join(root, n, "notes.md")
    if os.path.exists(np_):
        t = open(np_).read()
        notes = " ".join(t.split())[:260]
    det = m.get("detected_by") or {}
    for pid, d in sorted(det.items()):
        if d["exit"] == 1:
            verdict = "CAUGHT" + ("" if "no-failing-input-found" not in (d.get("violation_line") or "") else " (no-failing-input-found)")
        elif d["exit"] == 2:
            verdict = "undecided (exit 2)"
        else:
            verdict = "MISSED"
        rows.append((n, pid, verdict, ", ".join(d.get("failed_obligations", [])[:6]) or "; ".join(d.get("undecided", [])[:2])[:200], d.get("wall_s"), notes))
    if not det:
        rows.append((n, m["property"], "not evaluated", "", "", notes))
with open(os.path.join(root, "RESULTS.md"), "w") as f:
    f.write("# Seeded changes: which check catches which\n\n")
    f.write("Each change was written by a sub-agent that saw only the property text, confirmed by `lib/seedcheck.py`\n"
            "(compiles; whole existing suite passes with it; demo fails with it and passes without), and evaluated by\n"
            "`lib/seedeval.py`: the registered quick check of the property, pointed (VERIF_REPO) at a scratch worktree with the\n"
            "patch applied.\n\n")
    f.write("| seed | property | result | failed obligations (first few) / reason | wall s |\n|---|---|---|---|---|\n")
    for r in rows:
        f.write("| %s | %s | %s | %s | %s |\n" % (r[0], r[1], r[2], r[3].replace("|", "\\|"), r[4]))
    f.write("\n## What each seed is\n\n")
    seen = set()
    for r in rows:
        if r[0] in seen:
            continue
        seen.add(r[0])
        f.write("* **%s** — %s\n" % (r[0], r[5]))
print("rows", len(rows))
