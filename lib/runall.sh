#!/bin/bash
# run every registered quick (or thorough) check on /repo itself, sequentially
TIER=${1:-quick}
cd "$(dirname "$0")/.."
for p in $(python3 -c "import json;print(' '.join(c['property_id'] for c in json.load(open('MANIFEST.json'))['checks']))"); do
  s=$(date +%s)
  ./check $p --tier $TIER > logs/runall-$p-$TIER.out 2>&1
  rc=$?
  e=$(date +%s)
  echo "$p exit=$rc wall=$((e-s))s $(tail -1 logs/runall-$p-$TIER.out | cut -c1-160)"
done
