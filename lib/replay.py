"""Violation reports: a replay file per violation (failed obligations + verifier output +, where
Kani's concrete playback yields values and the state can be rebuilt through the public API, a
scenario that is run against the real crate)."""
import json
import os
import re
import subprocess
import time

import vlib


def _excerpt(logp, names):
    try:
        text = open(logp, errors="replace").read()
    except OSError:
        return ""
    out = []
    for m in vlib.CHECK_RE.finditer(text):
        if m.group(3) == "FAILURE":
            out.append(m.group(0))
    m = re.search(r"^SUMMARY:.*", text, re.M | re.S)
    if m:
        out.append(m.group(0)[:3000])
    return "\n\n".join(out)[-12000:]


def make_replay(prop, tier, failed, logdir):
    """returns (path, failing_input_found)"""
    d = os.path.join(vlib.VERIF, "replays")
    os.makedirs(d, exist_ok=True)
    path = os.path.join(d, "%s-%s-%d.json" % (prop, tier, int(time.time())))
    byh = {}
    for f in failed:
        byh.setdefault(f["harness"], []).append(f)
    items = []
    found = False
    # counter-example replay is attempted for at most MAX_PLAYBACK failing harnesses that have a
    # scenario decoder, sharing one scratch build
    MAX_PLAYBACK = int(os.environ.get("VERIF_MAX_PLAYBACK", "2"))
    tried = 0
    pb_scratch = None
    import scenario
    for h, fs in sorted(byh.items(), key=lambda kv: (not scenario.has_decoder(kv[0]), kv[0])):
        logp = os.path.join(logdir, h.replace("@", "_") + ".log")
        item = {
            "harness": h,
            "failed_obligations": [{"name": f["name"], "kind": f["kind"], "where": f.get("where")} for f in fs],
            "verifier_output": _excerpt(logp, [f["name"] for f in fs]) if fs[0].get("kind") != "verus" else fs[0].get("output", ""),
            "log": logp,
        }
        try:
            sc = None
            if tried < MAX_PLAYBACK and scenario.has_decoder(h) and fs[0].get("kind") != "verus":
                tried += 1
                if pb_scratch is None:
                    pb_scratch = vlib.Scratch("pb")
                    pb_scratch.populate()
                    pb_scratch.inject()
                sc = scenario.from_failure(h, fs, logdir, pb_scratch)
            if sc is not None:
                item["scenario"] = sc["scenario"]
                item["replay_result"] = sc["result"]
                if sc["result"].get("diverged"):
                    found = True
        except Exception as e:  # replay is best effort; the violation stands on the failed obligation
            item["scenario_error"] = repr(e)
        items.append(item)
    if pb_scratch is not None:
        pb_scratch.cleanup()
    doc = {
        "property": prop,
        "tier": tier,
        "what": "obligation(s) that are discharged on the unchanged tree failed on /repo's current working tree",
        "failing_input_found": found,
        "items": items,
        "how_to_rerun": "cd /verif && ./check %s --tier %s   (or: python3 lib/dev.py <harness>)" % (prop, tier),
    }
    with open(path, "w") as f:
        json.dump(doc, f, indent=1)
    return path, found


def replay_file(path):
    doc = json.load(open(path))
    print(json.dumps({k: doc[k] for k in ("property", "tier", "failing_input_found")}, indent=1))
    rc = 0
    for it in doc["items"]:
        print("harness", it["harness"])
        for f in it["failed_obligations"]:
            print("  failed:", f["name"])
        if it.get("scenario"):
            import scenario
            r = scenario.run_scenario(it["scenario"])
            print("  replay on the real crate:", json.dumps(r))
            if r.get("diverged"):
                rc = 1
    return rc
