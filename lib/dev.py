#!/usr/bin/env python3
"""developer helper (not registered in MANIFEST): run named harnesses on a scratch copy of
/repo and print the per-obligation result.   usage: dev.py [-k] [--repo DIR] name [name..]"""
import os
import sys

sys.path.insert(0, os.path.dirname(os.path.abspath(__file__)))
import vlib


def main():
    args = sys.argv[1:]
    keep = False
    if "-k" in args:
        keep = True
        args.remove("-k")
        os.environ["VERIF_KEEP_SCRATCH"] = "1"
    if "--repo" in args:
        i = args.index("--repo")
        vlib.REPO = args[i + 1]
        del args[i:i + 2]
    reg = vlib.load_registry()
    names = []
    for a in args:
        if a in reg:
            names.append(a)
        else:
            ms = [n for n in reg if a in n]
            if not ms:
                print("no harness matches", a)
                sys.exit(2)
            names += ms
    hs = [reg[n] for n in dict.fromkeys(names)]
    sc = vlib.Scratch("dev")
    try:
        sc.populate()
        sc.inject()
        if any("loom" in h.get("cfg", "") for h in hs):
            sc.add_loom_shim()
        logdir = os.path.join(vlib.VERIF, "logs", "dev")
        res = vlib.run_harnesses(sc, hs, logdir)
        for r in sorted(res, key=lambda r: r["harness"]):
            h = reg[r["harness"]]
            c = vlib.classify(h, r, None)
            print("== %s  status=%s verdict=%s wall=%.1fs solver=%.1fs obligations=%d failed=%d expfail=%d" % (
                r["harness"], r["status"], r["verdict"], r["wall_s"], r.get("solver_time") or 0,
                len(c["obligations"]), len(c["failed"]), c["expected_failures"]))
            for f in c["failed"]:
                print("   FAILED  %s   @ %s" % (f["name"], f["where"]))
            for u in c["undecided"]:
                print("   UNDECIDED  %s" % u)
            for u in c["covers_missing"]:
                print("   COVER-MISSING  %s" % u)
            covs = {}
            for ch in r["checks"]:
                if ch["class"] == "cover":
                    covs.setdefault(ch["desc"], []).append(ch["status"])
            sat = sorted(k for k, v in covs.items() if "SATISFIED" in v)
            uns = sorted(k for k, v in covs.items() if "SATISFIED" not in v)
            print("   covers satisfied:", ",".join(sat))
            print("   covers not satisfied:", ",".join(uns))
            if r["status"] != "done":
                print(r.get("tail", "")[-1500:])
    finally:
        sc.cleanup()


if __name__ == "__main__":
    main()
