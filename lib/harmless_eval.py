#!/usr/bin/env python3
"""negative controls: behaviour-preserving edits of /repo must never produce a VIOLATION.
usage: harmless_eval.py   (runs harmless/*.diff, each against the checks listed below)"""
import json, os, re, subprocess, sys, time
CHECKS = {
    "h1_push_str_rename_reorder": ["C01", "C11", "C12"],
    "h2_reserve_inline_unique_test": ["C02", "C04", "C11", "C12"],
    "h3_push_str_fast_path": ["C01", "C09", "C11", "C05"],
    "h4_shrink_to_swap_lets": ["C13"],
    "h5_clear_branches_swapped": ["C02", "C04"],
    "h6_insert_str_more_debug_asserts": ["C07", "C20", "C01"],
}
def sh(cmd, cwd="/", env=None, timeout=7200):
    p = subprocess.run(cmd, cwd=cwd, shell=True, stdout=subprocess.PIPE, stderr=subprocess.STDOUT, text=True, timeout=timeout, env=env)
    return p.returncode, p.stdout
out = {}
for name, props in CHECKS.items():
    wt = "/tmp/hwt-" + name
    sh("git -C /repo worktree remove --force %s" % wt)
    sh("git -C /repo worktree add %s HEAD" % wt)
    try:
        rc, o = sh("git apply /verif/harmless/%s.diff" % name, wt)
        assert rc == 0, o
        rc, o = sh("cargo test --offline 2>&1 | grep -E 'test result|^error'", wt)
        suite_ok = "FAILED" not in o and "error" not in o
        res = {"suite_passes": suite_ok, "checks": {}}
        for pid in props:
            t0 = time.time()
            rc, o = sh("./check %s --tier quick" % pid, "/verif", dict(os.environ, VERIF_REPO=wt))
            res["checks"][pid] = {"exit": rc, "last": o.strip().split("\n")[-1][:300], "wall_s": round(time.time() - t0)}
            print(name, pid, "exit", rc, o.strip().split("\n")[-1][:200], flush=True)
        out[name] = res
    finally:
        sh("git -C /repo worktree remove --force %s" % wt)
json.dump(out, open("/verif/harmless/RESULTS.json", "w"), indent=1)
bad = [(n, p) for n, r in out.items() for p, c in r["checks"].items() if c["exit"] == 1]
print("ALARMS ON HARMLESS EDITS:", bad)
