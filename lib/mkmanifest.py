#!/usr/bin/env python3
"""regenerate MANIFEST.json from lib/props.py (claimed properties) + NOT_APPLICABLE below"""
import json, os, sys
sys.path.insert(0, os.path.dirname(os.path.abspath(__file__)))
import props as P

NOT_APPLICABLE = {
    "C18": "state after unwinding from a panicking callback: neither verifier models unwinding (Kani cuts the path at the panic, Verus has no panics), so 'after unwinding the target holds ...' and 'nothing is leaked' cannot be stated as a postcondition of the real code",
}

def main():
    checks = []
    for pid in sorted(P.PROPS):
        m = P.PROPS[pid]
        checks.append({
            "property_id": pid,
            "quick_cmd": "./check %s --tier quick" % pid,
            "thorough_cmd": "./check %s --tier thorough" % pid,
            "evidence_file": "/verif/evidence/%s.json" % pid,
            "replay_cmd_template": "./check %s --replay {path}" % pid,
            "engine": "kani-contracts+verus",
            "level_claimed": {"category": m.get("level", "proof"), "text": m["claim"], "design_ref": "DESIGN.md section 4, " + pid},
            "level_note": "; ".join(m.get("trust", []) + ["see evidence coverage.trusted_base / coverage.bounded / coverage.not_covered"]),
            "technique": "contract-based deductive verification: harness-encoded Hoare triples on the real functions (Kani 0.68 / CBMC, cfg(kani) modules added to a scratch copy)" + (" + Verus lemmas/extracted functions (%s)" % ", ".join(m["verus"]) if m.get("verus") else ""),
        })
    man = {
        "version": 1,
        "setup_cmd": "true",
        "hooks": {
            "guard": "cfg(kani)",
            "enable": "no hook lives in /repo: every check copies /repo's working tree (src/, Cargo.toml, Cargo.lock, README.md) to a scratch directory and ADDS cfg(kani) child modules there (kani/*.rs, one `#[cfg(kani)] mod ..;` line per module); cargo-kani sets cfg(kani)",
            "baseline_off_cmd": "cd /repo && (cargo nextest run --workspace --no-fail-fast --offline || cargo test --workspace --no-fail-fast --offline)",
            "source_commits": [],
            "add_only": True,
        },
        "engines": [
            {"name": "kani-contracts+verus", "path": "/verif/check", "serves_properties": sorted(P.PROPS),
             "kind_free_text": "python driver: scratch copy + injection, per-harness cargo kani runs, per-check report parser, Verus on extracted functions and on lemmas over the contracts"}
        ],
        "checks": checks,
        "notes": "exit 0 held / 1 VIOLATION / 2 undecided (anchor lost, build error, timeout, out of memory, vacuity guard) - never an alarm. Fixed defects: known-findings.txt.",
        "not_applicable": [{"property_id": k, "reason": v} for k, v in sorted(NOT_APPLICABLE.items())],
    }
    with open(os.path.join(os.path.dirname(os.path.dirname(os.path.abspath(__file__))), "MANIFEST.json"), "w") as f:
        json.dump(man, f, indent=1)
    print("MANIFEST.json: %d checks, %d not applicable" % (len(checks), len(NOT_APPLICABLE)))

if __name__ == "__main__":
    main()
