"""Counter-example -> scenario -> replay on the real crate.

Kani's concrete playback prints the values of the harness' kani::any() draws in order. The
generators draw in a fixed order (verif_repr.rs):
  any_heap / any_heap_rc : cap:usize, len:usize, [rc:usize]      any_heap_fixed: len, rc
  any_static             : obj:usize, len:usize                   any_inline: [u8;16]
  any_repr               : kind:u8 then the above
  Frame::snapshot        : ti:usize, bi:usize
then the operation's arguments (usize) / any_str (n:usize). Buffer CONTENTS are not kani::any
draws (fresh allocations are nondeterministic memory), so the replayed text is a..z; a
violation that depends on particular bytes is reported with `no-failing-input-found`."""
import json
import os
import re
import shutil
import subprocess
import tempfile

import vlib

# harness-name prefix -> (generator, op, argument layout after the Frame probes)
OPS = [
    ("reserve_heap", "heap", "reserve", ["a0"]), ("reserve_static", "static", "reserve", ["a0"]), ("reserve_inline", "inline", "reserve", ["a0"]),
    ("shrink_to_heap", "heap", "shrink_to", ["a0"]), ("shrink_to_static", "static", "shrink_to", ["a0"]), ("shrink_to_inline", "inline", "shrink_to", ["a0"]),
    ("ensure_modifiable_heap", "heap", "retain_none", []), ("ensure_modifiable_static", "static", "retain_none", []),
    ("clone_heap", "heap", "clone", []), ("clone_static", "static", "clone", []), ("clone_inline", "inline", "clone", []),
    ("truncate_heap", "heap", "truncate", ["a0"]), ("truncate_static", "static", "truncate", ["a0"]), ("truncate_inline", "inline", "truncate", ["a0"]),
    ("pop_heap", "heap", "pop", []), ("pop_static", "static", "pop", []), ("pop_inline", "inline", "pop", []),
    ("clear_heap", "heap", "clear", []),
    ("replace_inner_heap", "heap", "drop", []), ("drop_heap", "heap", "drop", []),
    ("push_str_heap", "heap", "push_str", ["slen"]), ("push_str_static", "static", "push_str", ["slen"]), ("push_str_inline", "inline", "push_str", ["slen"]),
]


def playback_values(scratch, h, logdir):
    """re-run the failing harness with concrete playback; returns list of byte vectors"""
    extra = ["-Z", "concrete-playback", "--concrete-playback=print"]
    r = vlib.run_harness(scratch, dict(h, timeout=min(h.get("timeout", 900), 1200)), logdir, extra=extra, suffix=".playback")
    text = open(r["log"], errors="replace").read()
    m = re.search(r"let concrete_vals: Vec<Vec<u8>> = vec!\[(.*?)\];", text, re.S)
    if not m:
        return None
    vals = []
    for vm in re.finditer(r"vec!\[([\d,\s]*)\]", m.group(1)):
        vals.append([int(x) for x in vm.group(1).replace("\n", " ").split(",") if x.strip()])
    return vals


def le(v):
    return int.from_bytes(bytes(v), "little")


def decode(hname, vals):
    base = hname.split("@")[0]
    for pref, gen, op, argl in OPS:
        if base.startswith(pref):
            break
    else:
        return None
    it = iter(vals)
    sc = {"op": op, "kind": gen, "harness": hname}
    try:
        if gen == "heap":
            if "_unique" in base or "_shared" in base:
                sc["cap"] = le(next(it)); sc["len"] = le(next(it))
                sc["rc"] = 1 if "_unique" in base else le(next(it))
            else:
                sc["cap"] = le(next(it)); sc["len"] = le(next(it)); sc["rc"] = le(next(it))
        elif gen == "static":
            sc["obj"] = le(next(it)); sc["len"] = le(next(it))
        else:
            b = next(it)
            lb = b[15]
            sc["len"] = lb - 0xC0 if lb >= 0xC0 else 16
            sc["inline_bytes"] = b
        next(it); next(it)  # Frame probes ti, bi
        for a in argl:
            sc[a] = le(next(it))
    except StopIteration:
        return None
    if sc.get("rc", 1) > 3:
        sc["rc_symbolic"] = sc["rc"]
        sc["rc"] = 3
    return sc


def build_replay(repo):
    d = tempfile.mkdtemp(prefix="lsv-replay-")
    shutil.copytree(os.path.join(vlib.VERIF, "replay", "src"), os.path.join(d, "src"))
    t = open(os.path.join(vlib.VERIF, "replay", "Cargo.toml.in")).read().replace("@REPO@", repo)
    open(os.path.join(d, "Cargo.toml"), "w").write(t)
    lock = os.path.join(vlib.VERIF, "replay", "Cargo.lock")
    if os.path.exists(lock):
        shutil.copy(lock, os.path.join(d, "Cargo.lock"))
    env = dict(os.environ, CARGO_NET_OFFLINE="true")
    env.pop("RUSTFLAGS", None)
    p = subprocess.run(["cargo", "build", "--offline", "--quiet"], cwd=d, env=env, stdout=subprocess.PIPE, stderr=subprocess.STDOUT, text=True)
    if p.returncode != 0:
        shutil.rmtree(d, ignore_errors=True)
        raise RuntimeError("replay driver does not build: " + p.stdout[-800:])
    return d


def run_scenario(sc, repo=None, built=None):
    repo = repo or vlib.REPO
    d = built or build_replay(repo)
    try:
        results = []
        fails = [0, 1] if sc["op"] not in ("clone", "truncate", "pop", "clear", "drop") else [0]
        for fail in fails:
            args = ["%s=%s" % (k, sc[k]) for k in ("kind", "op", "len", "cap", "rc", "obj", "a0", "a1", "slen") if k in sc] + ["fail=%d" % fail]
            p = subprocess.run([os.path.join(d, "target", "debug", "ls_replay")] + args, stdout=subprocess.PIPE, stderr=subprocess.PIPE, text=True, timeout=120)
            line = p.stdout.strip().split("\n")[-1] if p.stdout.strip() else ""
            try:
                j = json.loads(line)
            except Exception:
                j = {"diverged": p.returncode != 0, "what": ["replay crashed: rc=%d %s" % (p.returncode, p.stderr[-300:])]}
            j["args"] = args
            results.append(j)
        return {"diverged": any(r.get("diverged") for r in results), "runs": results}
    finally:
        if built is None:
            shutil.rmtree(d, ignore_errors=True)


def from_failure(hname, failed, logdir):
    """called by replay.make_replay; needs the scratch of the run -> re-created here"""
    reg = vlib.load_registry()
    base = hname.split("@")[0]
    if base not in reg or failed[0].get("kind") == "verus":
        return None
    h = dict(reg[base])
    sc = vlib.Scratch("pb")
    try:
        sc.populate()
        sc.inject()
        vals = playback_values(sc, h, logdir)
    finally:
        sc.cleanup()
    if not vals:
        return None
    scen = decode(base, vals)
    if scen is None:
        return {"scenario": {"harness": hname, "raw_values": vals[:12]}, "result": {"diverged": False, "note": "no decoder for this harness"}}
    res = run_scenario(scen)
    return {"scenario": scen, "result": res}
