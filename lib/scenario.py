"""Counter-example -> scenario -> replay on the real crate.

Kani's concrete playback prints the values of the harness' kani::any() draws in order. The
generators draw in a fixed order (verif_repr.rs):
  any_heap / any_heap_rc : cap:usize, len:usize, [rc:usize]      any_heap_fixed: len, rc
  any_static             : obj:usize, len:usize                   any_inline: [u8;16]
  any_repr               : kind:u8 then the above
  Frame::snapshot        : ti:usize, bi:usize
then the operation's arguments (usize) / any_str (n:usize). Buffer CONTENTS are not kani::any
draws (fresh allocations are nondeterministic memory), so the replayed text is a..z; a
violation that depends on particular bytes is reported with `no-failing-input-found`."""
import json
import os
import re
import shutil
import subprocess
import tempfile

import vlib

# harness-name prefix -> (op, layout). Layout tokens, in the order the harness draws them:
#   gen:<kind>   the generator's draws      frame   Frame::snapshot (ti, bi)
#   slen         any_str (n)                argp    probe_arg (i)
#   a0 / a1      a usize argument           ch      a char (4 bytes)     skip  one draw
OPS = [
    ("reserve_heap", "reserve", ["gen:heap", "frame", "a0"]), ("reserve_static", "reserve", ["gen:static", "frame", "a0"]),
    ("reserve_inline", "reserve", ["gen:inline", "frame", "a0"]),
    ("shrink_to_heap", "shrink_to", ["gen:heap", "frame", "a0"]), ("shrink_to_static", "shrink_to", ["gen:static", "frame", "a0"]),
    ("shrink_to_inline", "shrink_to", ["gen:inline", "frame", "a0"]),
    ("ensure_modifiable_heap", "retain_none", ["gen:heap", "frame"]), ("ensure_modifiable_static", "retain_none", ["gen:static", "frame"]),
    ("clone_heap", "clone", ["gen:heap", "frame"]), ("clone_static", "clone", ["gen:static", "frame"]), ("clone_inline", "clone", ["gen:inline", "frame"]),
    ("truncate_heap", "truncate", ["gen:heap", "frame", "a0"]), ("truncate_static", "truncate", ["gen:static", "frame", "a0"]),
    ("truncate_inline", "truncate", ["gen:inline", "frame", "a0"]),
    ("pop_heap", "pop", ["gen:heap", "frame"]), ("pop_static", "pop", ["gen:static", "frame"]), ("pop_inline", "pop", ["gen:inline", "frame"]),
    ("clear_heap", "clear", ["gen:heap", "frame"]),
    ("replace_inner_heap", "drop", ["gen:heap", "frame"]), ("drop_heap", "drop", ["gen:heap", "frame"]),
    ("push_str_heap", "push_str", ["gen:heap", "frame", "slen", "argp"]), ("push_str_static", "push_str", ["gen:static", "frame", "slen", "argp"]),
    ("push_str_inline", "push_str", ["gen:inline", "frame", "slen", "argp"]),
    ("push_str_mod_heap", "push_str", ["slen", "argp", "gen:heap_unique", "frame"]), ("push_str_mod_inline", "push_str", ["slen", "argp", "gen:inline", "frame"]),
    ("e2e_push_str_inline", "push_str", ["gen:inline", "frame", "slen", "argp"]), ("e2e_push_str_static", "push_str", ["gen:static", "frame", "slen", "argp"]),
    ("e2e_push_str_unique", "push_str", ["gen:heap_unique", "frame", "slen", "argp"]), ("e2e_push_str_shared", "push_str", ["gen:heap_shared", "frame", "slen", "argp"]),
    ("e2e_insert_str_inline", "insert_str", ["gen:inline", "slen", "argp", "a0", "frame"]), ("e2e_insert_str_static", "insert_str", ["gen:static", "slen", "argp", "a0", "frame"]),
    ("e2e_insert_str_unique", "insert_str", ["gen:heap_unique", "slen", "argp", "a0", "frame"]), ("e2e_insert_str_shared", "insert_str", ["gen:heap_shared", "slen", "argp", "a0", "frame"]),
    ("insert_str_mod_inline", "insert_str", ["slen", "argp", "gen:inline", "a0", "frame"]),
    ("e2e_remove_inline", "remove", ["gen:inline", "a0", "skip", "frame"]), ("e2e_remove_static", "remove", ["gen:static", "a0", "skip", "frame"]),
    ("e2e_remove_unique", "remove", ["gen:heap_unique", "a0", "skip", "frame"]), ("e2e_remove_shared", "remove", ["gen:heap_shared", "a0", "skip", "frame"]),
    ("remove_mod_inline", "remove", ["gen:inline", "a0", "skip", "frame"]),
    ("remove_frame_heap_unique", "remove", ["gen:heap_unique", "a0", "skip", "frame"]), ("remove_frame_heap_shared", "remove", ["gen:heap_shared", "a0", "skip", "frame"]),
    ("remove_frame_static", "remove", ["gen:static", "a0", "skip", "frame"]),
]


def playback_values(scratch, h, logdir):
    """re-run the failing harness with concrete playback; returns list of byte vectors"""
    extra = ["-Z", "concrete-playback", "--concrete-playback=print"]
    r = vlib.run_harness(scratch, dict(h, timeout=min(h.get("timeout", 900), 1200)), logdir, extra=extra, suffix=".playback")
    text = open(r["log"], errors="replace").read()
    m = re.search(r"let concrete_vals: Vec<Vec<u8>> = vec!\[(.*?)\];", text, re.S)
    if not m:
        return None
    vals = []
    for vm in re.finditer(r"vec!\[([\d,\s]*)\]", m.group(1)):
        vals.append([int(x) for x in vm.group(1).replace("\n", " ").split(",") if x.strip()])
    return vals


def le(v):
    return int.from_bytes(bytes(v), "little")


def decode(hname, vals):
    base = hname.split("@")[0]
    for pref, op, layout in OPS:
        if base.startswith(pref):
            break
    else:
        return None
    it = iter(vals)
    sc = {"op": op, "harness": hname}
    try:
        for tok in layout:
            if tok.startswith("gen:"):
                gen = tok[4:]
                if gen == "heap":
                    sc["kind"] = "heap"
                    sc["cap"] = le(next(it)); sc["len"] = le(next(it))
                    if "_unique" in base:
                        sc["rc"] = 1
                    else:
                        sc["rc"] = le(next(it))
                elif gen == "heap_unique":
                    sc["kind"] = "heap"; sc["cap"] = le(next(it)); sc["len"] = le(next(it)); sc["rc"] = 1
                elif gen == "heap_shared":
                    sc["kind"] = "heap"; sc["cap"] = le(next(it)); sc["len"] = le(next(it)); sc["rc"] = le(next(it))
                elif gen == "static":
                    sc["kind"] = "static"; sc["obj"] = le(next(it)); sc["len"] = le(next(it))
                else:
                    sc["kind"] = "inline"
                    b = next(it)
                    lb = b[15]
                    sc["len"] = lb - 0xC0 if lb >= 0xC0 else 16
                    sc["inline_bytes"] = b
            elif tok == "frame":
                next(it); next(it)
            elif tok in ("argp", "skip"):
                next(it)
            elif tok == "ch":
                sc["ch"] = le(next(it))
            else:
                sc[tok] = le(next(it))
    except StopIteration:
        return None
    if sc.get("rc", 1) > 3:
        sc["rc_symbolic"] = sc["rc"]
        sc["rc"] = 3
    return sc


def build_replay(repo):
    d = tempfile.mkdtemp(prefix="lsv-replay-")
    shutil.copytree(os.path.join(vlib.VERIF, "replay", "src"), os.path.join(d, "src"))
    t = open(os.path.join(vlib.VERIF, "replay", "Cargo.toml.in")).read().replace("@REPO@", repo)
    open(os.path.join(d, "Cargo.toml"), "w").write(t)
    lock = os.path.join(vlib.VERIF, "replay", "Cargo.lock")
    if os.path.exists(lock):
        shutil.copy(lock, os.path.join(d, "Cargo.lock"))
    env = dict(os.environ, CARGO_NET_OFFLINE="true")
    env.pop("RUSTFLAGS", None)
    p = subprocess.run(["cargo", "build", "--offline", "--quiet"], cwd=d, env=env, stdout=subprocess.PIPE, stderr=subprocess.STDOUT, text=True)
    if p.returncode != 0:
        shutil.rmtree(d, ignore_errors=True)
        raise RuntimeError("replay driver does not build: " + p.stdout[-800:])
    return d


def run_scenario(sc, repo=None, built=None):
    repo = repo or vlib.REPO
    d = built or build_replay(repo)
    try:
        results = []
        fails = [0, 1] if sc["op"] not in ("clone", "truncate", "pop", "clear", "drop") else [0]
        for fail in fails:
            args = ["%s=%s" % (k, sc[k]) for k in ("kind", "op", "len", "cap", "rc", "obj", "a0", "a1", "slen") if k in sc] + ["fail=%d" % fail]
            p = subprocess.run([os.path.join(d, "target", "debug", "ls_replay")] + args, stdout=subprocess.PIPE, stderr=subprocess.PIPE, text=True, timeout=120)
            line = p.stdout.strip().split("\n")[-1] if p.stdout.strip() else ""
            try:
                j = json.loads(line)
            except Exception:
                j = {"diverged": p.returncode != 0, "what": ["replay crashed: rc=%d %s" % (p.returncode, p.stderr[-300:])]}
            j["args"] = args
            results.append(j)
        return {"diverged": any(r.get("diverged") for r in results), "runs": results}
    finally:
        if built is None:
            shutil.rmtree(d, ignore_errors=True)


def has_decoder(hname):
    base = hname.split("@")[0]
    return any(base.startswith(pref) for pref, _op, _l in OPS)


def from_failure(hname, failed, logdir, sc):
    """called by replay.make_replay with a populated scratch copy"""
    reg = vlib.load_registry()
    base = hname.split("@")[0]
    if base not in reg or failed[0].get("kind") == "verus":
        return None
    h = dict(reg[base])
    vals = playback_values(sc, h, logdir)
    if not vals:
        return None
    scen = decode(base, vals)
    if scen is None:
        return {"scenario": {"harness": hname, "raw_values": vals[:12]}, "result": {"diverged": False, "note": "no decoder for this harness"}}
    res = run_scenario(scen)
    return {"scenario": scen, "result": res}
