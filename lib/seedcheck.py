#!/usr/bin/env python3
"""confirm a sub-agent's seeded change and file it under /verif/seeded/<name>/
usage: seedcheck.py /tmp/seed-out/<dir> [...]
checks (in a scratch worktree of /repo, removed afterwards): patch applies; cargo build; the
whole existing test suite passes WITH the change; the demo fails WITH and passes WITHOUT it."""
import json, os, re, shutil, subprocess, sys, time

def sh(cmd, cwd, timeout=1800):
    p = subprocess.run(cmd, cwd=cwd, shell=True, stdout=subprocess.PIPE, stderr=subprocess.STDOUT, text=True, timeout=timeout)
    return p.returncode, p.stdout

def main():
    for src in sys.argv[1:]:
        src = src.rstrip("/")
        name = os.path.basename(src)
        pid = name.split("-")[0]
        wt = "/tmp/seedwt-%s" % name
        sh("git -C /repo worktree remove --force %s" % wt, "/")
        rc, out = sh("git -C /repo worktree add %s HEAD" % wt, "/")
        res = {"name": name, "property": pid}
        feat = " --features serde,arbitrary" if pid == "C19" else ""
        try:
            rc, out = sh("git apply %s/patch.diff" % src, wt)
            res["patch_applies"] = rc == 0
            if rc != 0:
                res["error"] = out[-500:]
                continue
            rc, out = sh("cargo test --offline" + feat + " 2>&1 | grep -E 'test result|^error|panicked'", wt)
            fails = re.findall(r"test result: FAILED|error\[|error:", out)
            oks = re.findall(r"test result: ok\. (\d+) passed", out)
            res["suite_passes_with_change"] = (not fails) and len(oks) >= 4
            res["suite_summary"] = [int(x) for x in oks]
            shutil.copy(os.path.join(src, "demo.rs"), os.path.join(wt, "tests", "demo_seed.rs"))
            rc1, out1 = sh("cargo test --offline" + feat + " --test demo_seed 2>&1 | tail -15", wt)
            res["demo_fails_with_change"] = ("test result: FAILED" in out1) or ("SIGSEGV" in out1) or ("signal" in out1) or ("error: test failed" in out1)
            res["demo_mode"] = "cargo test"
            if not res["demo_fails_with_change"] and pid == "C04":
                # a missing ordering edge cannot fail natively on x86: accept a Miri data-race report
                rcm, outm = sh("MIRIFLAGS=-Zmiri-disable-isolation cargo +nightly miri test --offline --test demo_seed 2>&1 | tail -30", wt, timeout=3000)
                res["demo_fails_with_change"] = ("Undefined Behavior" in outm) or ("Data race" in outm)
                res["demo_mode"] = "cargo +nightly miri test"
                out1 = outm
            sh("git apply -R %s/patch.diff" % src, wt)
            if res["demo_mode"].startswith("cargo +nightly miri"):
                rc2, out2 = sh("MIRIFLAGS=-Zmiri-disable-isolation cargo +nightly miri test --offline --test demo_seed 2>&1 | tail -30", wt, timeout=3000)
                res["demo_passes_without_change"] = bool(re.search(r"test result: ok\.", out2)) and "Undefined Behavior" not in out2
            else:
                rc2, out2 = sh("cargo test --offline" + feat + " --test demo_seed 2>&1 | tail -15", wt)
                res["demo_passes_without_change"] = bool(re.search(r"test result: ok\.", out2)) and "FAILED" not in out2
            res["demo_tail_with_change"] = out1[-600:]
            ok = all(res.get(k) for k in ("patch_applies", "suite_passes_with_change", "demo_fails_with_change", "demo_passes_without_change"))
            res["confirmed"] = ok
            if ok:
                dst = os.path.join("/verif/seeded", name)
                os.makedirs(dst, exist_ok=True)
                for f in ("patch.diff", "demo.rs", "notes.md"):
                    if os.path.exists(os.path.join(src, f)):
                        shutil.copy(os.path.join(src, f), os.path.join(dst, f))
                meta = {"property": pid, "name": name, "confirmed_by": "lib/seedcheck.py in a scratch worktree of /repo HEAD",
                        "ran": ["git apply patch.diff", "cargo test --offline (whole suite, with change): passes",
                                "cargo test --offline --test demo_seed (with change): FAILS", "same without change: passes"],
                        "suite_summary": res["suite_summary"], "needs": "see notes.md", "detected_by": None}
                json.dump(meta, open(os.path.join(dst, "meta.json"), "w"), indent=1)
        except Exception as e:
            res["error"] = repr(e)
        finally:
            sh("git -C /repo worktree remove --force %s" % wt, "/")
            print(json.dumps({k: v for k, v in res.items() if k != "demo_tail_with_change"}))
            sys.stdout.flush()

if __name__ == "__main__":
    main()
