// Injected as `src/repr/verif_edit.rs` (child of `crate::repr`, cfg(kani)).
//
// Contracts of the text-editing operations of `Repr`:
//   push_str, truncate (+ truncate_unchecked), pop, set_len, remove, insert_str, retain
// and the "bad index" harnesses (panic exactly when String does, no effect before).
#![allow(dead_code, unused_imports, unused_variables, static_mut_refs)]

use super::verif_mod::{any_str, probe_arg, ArgProbe};
use super::verif_ops::spec_growth;
use super::verif_repr::*;
use super::*;

/// `str::is_char_boundary` as documented: 0 and len are boundaries, otherwise the byte at
/// `idx` must not be a continuation byte; anything past the end is not a boundary
pub(crate) fn spec_boundary(r: &Repr, g: &Ghost, idx: usize) -> bool {
    if idx == 0 || idx == g.len {
        true
    } else if idx > g.len {
        false
    } else {
        !is_cont(text_at(r, g, idx))
    }
}

// ---------------------------------------------------------------------------------------
// push_str
// ---------------------------------------------------------------------------------------

fn push_str_contract(pre: (Repr, Ghost), smax: usize) {
    unsafe { A_FAIL = true };
    let (mut r, g) = pre;
    let f = Frame::snapshot(&r, &g);
    let (s, sp, n) = any_str(smax);
    let pr = probe_arg(sp, n);
    let res = r.push_str(s);
    append_post(&r, &f, g.len, sp, n, &pr, res);
}

pub(crate) static mut SKIP_TEXT_PROBE: bool = false;
/// with the memmove abstracted the bytes behind the insertion point are arbitrary, so the tail
/// fact of `wf` (last byte < 0xC0) is not established by that harness
pub(crate) static mut SKIP_WF: bool = false;
/// insert_str("") still goes through reserve(0) (which un-shares); push_str("") returns early
pub(crate) static mut IS_INSERT: bool = false;

/// post-condition shared by push_str and insert_str: `idx` is where the argument went
pub(crate) fn append_post(
    r: &Repr,
    f: &Frame,
    idx: usize,
    sp: *mut u8,
    n: usize,
    pr: &ArgProbe,
    res: Result<(), ReserveError>,
) {
    let g = f.g;
    let refused = unsafe { A_REFUSED > 0 };
    match res {
        Err(_) => {
            cov!(true, "append.err_reachable");
            obl!(unchanged_after_error(f, r), "append.err_unchanged", "C02,C03,C05,C06");
            obl!(wf(r), "append.err_usable", "C05");
            // (in a modular harness the error comes out of the callee's contract stub)
            obl!(
                refused || unsafe { S_ERR } || g.len + n > MAX56 || spec_growth(g.len, n) > MAX56,
                "append.err_only_if_refused_or_too_large",
                "C01,C06"
            );
        }
        Ok(()) => {
            cov!(true, "append.ok_reachable");
            if !unsafe { SKIP_WF } {
                obl!(wf(r), "append.wf", "C01,C03,C07,C20");
            }
            let h = view(r);
            obl!(h.len == g.len + n, "append.len", "C01");
            // text' = text[..idx] ++ s ++ text[idx..]
            if g.len > 0 && !unsafe { SKIP_TEXT_PROBE } {
                let j = if f.ti < idx { f.ti } else { f.ti + n };
                obl!(j < h.len && text_at(r, &h, j) == f.tb, "append.old_text_kept_in_place_or_shifted", "C01");
            }
            if n > 0 {
                obl!(text_at(r, &h, idx + pr.i) == pr.b, "append.argument_text_inserted", "C01");
            }
            obl!(f.static_untouched(), "append.static_untouched", "C10,C02");
            obl!(n == 0 || unsafe { *sp.add(pr.i) } == pr.b, "append.argument_untouched", "C02");
            if unsafe { MV_CALLS } > 0 {
                // insert_str under the memmove frame contract: the code moves exactly
                // text[idx .. len) up by the length of the argument (-> verus/v_move.rs)
                let tp = text_ptr(r, &h);
                obl!(
                    unsafe { MV_CALLS == 1 && MV_SRC == tp.add(idx) && MV_DST == tp.add(idx + n) && MV_COUNT == g.len - idx },
                    "insert_str.memmove_moves_the_tail_up_by_the_argument_length",
                    "C01"
                );
            }
            let need = g.len + n;
            let early = n == 0 && idx == g.len && !unsafe { IS_INSERT };
            if early {
                // push_str("") returns before reserve
                obl!(f.same_bits(r) && f.no_alloc_calls(), "push_str.empty_is_noop", "C01,C08");
            } else {
                obl!(
                    h.kind == K_INLINE || (h.kind == K_HEAP && h.rc == 1),
                    "append.result_exclusive_and_writable",
                    "C02,C10"
                );
            }
            if g.kind == K_HEAP && g.rc == 1 {
                if g.cap >= need {
                    cov!(n > 0, "append.unique_fits");
                    obl!(
                        f.no_alloc_calls() && word0_ptr(r) == f.ptr && h.cap == g.cap,
                        "append.no_alloc_no_move_if_fits_and_unique",
                        "C11"
                    );
                } else {
                    cov!(true, "append.unique_grows");
                    obl!(h.kind == K_HEAP && h.cap == spec_growth(g.len, n), "append.growth_unique", "C12");
                    obl!(
                        f.reallocs() == 1 && f.allocs() == 0 && f.deallocs() == 0 && live_blocks() == f.live,
                        "append.unique_grow_is_one_realloc",
                        "C03"
                    );
                }
            } else if g.kind == K_HEAP && !early {
                cov!(true, "append.shared");
                obl!(f.old_block_intact(g.rc - 1), "append.shared_old_block_intact", "C02,C03");
                obl!(h.kind == K_HEAP && h.base != g.base, "append.shared_moves_to_own_block", "C02");
                obl!(h.cap == spec_growth(g.len, n), "append.growth_shared", "C12");
                obl!(
                    f.allocs() == 1 && f.reallocs() == 0 && f.deallocs() == 0 && live_blocks() == f.live + 1,
                    "append.shared_is_one_alloc",
                    "C03"
                );
            } else if g.kind != K_HEAP && !early {
                if need <= MAX_INLINE_SIZE {
                    cov!(g.kind == K_INLINE && n > 0, "append.inline_stays_inline");
                    cov!(g.kind == K_STATIC, "append.static_to_inline");
                    obl!(h.kind == K_INLINE && f.no_alloc_calls(), "append.small_stays_off_heap", "C09,C10");
                } else {
                    cov!(g.kind == K_INLINE, "append.inline_to_heap");
                    cov!(g.kind == K_STATIC, "append.static_to_heap");
                    obl!(h.kind == K_HEAP && h.cap == spec_growth(g.len, n), "append.growth_from_inline_or_static", "C12");
                    obl!(
                        f.allocs() == 1 && f.reallocs() == 0 && f.deallocs() == 0 && live_blocks() == f.live + 1,
                        "append.to_heap_is_one_alloc",
                        "C03,C09"
                    );
                }
            }
        }
    }
}

// @harness name=push_str_heap_unique_e2e props=C01,C02,C03,C05,C06,C11,C12 class=U tier=thorough big=yes timeout=2400
#[kani::proof]
#[kani::stub(alloc::alloc::alloc, v_alloc)]
#[kani::stub(alloc::alloc::dealloc, v_dealloc)]
#[kani::stub(alloc::alloc::realloc, v_realloc)]
fn push_str_heap_unique_e2e() {
    push_str_contract(any_heap_rc(MAX_CAP, true), MAX_CAP);
}

// @harness name=push_str_heap_shared_e2e props=C01,C02,C03,C05,C06,C11,C12 class=U tier=thorough big=yes timeout=2400
#[kani::proof]
#[kani::stub(alloc::alloc::alloc, v_alloc)]
#[kani::stub(alloc::alloc::dealloc, v_dealloc)]
#[kani::stub(alloc::alloc::realloc, v_realloc)]
fn push_str_heap_shared_e2e() {
    push_str_contract(any_heap_rc(MAX_CAP, false), MAX_CAP);
}

// @harness name=push_str_static_e2e props=C01,C03,C05,C06,C09,C10,C12 class=U tier=thorough big=yes timeout=2400
#[kani::proof]
#[kani::stub(alloc::alloc::alloc, v_alloc)]
#[kani::stub(alloc::alloc::dealloc, v_dealloc)]
#[kani::stub(alloc::alloc::realloc, v_realloc)]
fn push_str_static_e2e() {
    push_str_contract(any_static(MAX_CAP), MAX_CAP);
}

// @harness name=push_str_inline_e2e props=C01,C03,C05,C06,C09,C12 class=U tier=thorough big=yes timeout=2400
#[kani::proof]
#[kani::stub(alloc::alloc::alloc, v_alloc)]
#[kani::stub(alloc::alloc::dealloc, v_dealloc)]
#[kani::stub(alloc::alloc::realloc, v_realloc)]
fn push_str_inline_e2e() {
    push_str_contract(any_inline(), MAX_CAP);
}

// ---------------------------------------------------------------------------------------
// truncate
// ---------------------------------------------------------------------------------------

fn truncate_post(r: &Repr, f: &Frame, new_len: usize, res: Result<(), ReserveError>) {
    let g = f.g;
    obl!(res.is_ok(), "truncate.ok", "C01,C05");
    obl!(wf(r), "truncate.wf", "C01,C03,C07,C20");
    let h = view(r);
    obl!(f.no_alloc_calls(), "truncate.no_alloc_calls", "C03,C09,C10");
    obl!(h.kind == g.kind, "truncate.kind_same", "C10");
    if new_len >= g.len {
        cov!(true, "truncate.noop");
        obl!(f.same_bits(r), "truncate.noop_if_not_shorter", "C01");
    } else {
        cov!(true, "truncate.shortens");
        obl!(h.len == new_len, "truncate.len", "C01");
        if f.ti < new_len {
            obl!(text_at(r, &h, f.ti) == f.tb, "truncate.prefix_kept", "C01");
        }
        if g.kind != K_INLINE {
            obl!(word0_ptr(r) == f.ptr, "truncate.pointer_same", "C02,C10,C11");
        }
        obl!(h.cap == g.cap || g.kind == K_STATIC, "truncate.capacity_kept", "C11");
    }
    if g.kind == K_HEAP {
        cov!(g.rc > 1 && new_len < g.len, "truncate.shared_shortens");
        obl!(f.old_block_intact(g.rc), "truncate.block_and_count_untouched", "C02,C03");
        // count == number of handles: the count may stay only if this handle is still on the block
        obl!((h.kind == K_HEAP && h.base == g.base) || (g.rc > 1 && f.old_block_intact(g.rc - 1)) || (g.rc == 1 && !is_live(g.base)), "truncate.count_is_number_of_handles_on_the_block", "C02,C03");
    } else {
        obl!(f.static_untouched(), "truncate.static_untouched", "C10");
    }
}

fn truncate_contract(pre: (Repr, Ghost)) {
    unsafe { A_FAIL = true };
    let (mut r, g) = pre;
    let f = Frame::snapshot(&r, &g);
    let new_len: usize = kani::any();
    // String::truncate accepts: new_len >= len, or new_len on a char boundary
    kani::assume(new_len >= g.len || spec_boundary(&r, &g, new_len));
    // requires (local consequence of UTF-8 validity of the pre-state text): the byte in front
    // of a char boundary ends a scalar, i.e. is ASCII or a continuation byte
    if new_len > 0 && new_len < g.len {
        kani::assume(text_at(&r, &g, new_len - 1) < 0xC0);
    }
    let res = r.truncate(new_len);
    truncate_post(&r, &f, new_len, res);
}

// @harness name=truncate_heap nodebug=thorough hist=yes props=C01,C02,C03,C07,C11 class=U tier=quick big=yes
#[kani::proof]
#[kani::stub(alloc::alloc::alloc, v_alloc)]
#[kani::stub(alloc::alloc::dealloc, v_dealloc)]
#[kani::stub(alloc::alloc::realloc, v_realloc)]
fn truncate_heap() {
    truncate_contract(any_heap(MAX_CAP));
}

// @harness name=truncate_static hist=yes props=C01,C07,C10 class=U tier=quick big=yes
#[kani::proof]
#[kani::stub(alloc::alloc::alloc, v_alloc)]
#[kani::stub(alloc::alloc::dealloc, v_dealloc)]
#[kani::stub(alloc::alloc::realloc, v_realloc)]
fn truncate_static() {
    truncate_contract(any_static(MAX_CAP));
}

// @harness name=truncate_inline nodebug=quick hist=yes props=C01,C07,C09 class=U tier=quick
#[kani::proof]
#[kani::stub(alloc::alloc::alloc, v_alloc)]
#[kani::stub(alloc::alloc::dealloc, v_dealloc)]
#[kani::stub(alloc::alloc::realloc, v_realloc)]
fn truncate_inline() {
    truncate_contract(any_inline());
}

// @harness name=truncate_reach props=C01,C02,C03,C07,C10 class=U tier=quick covers=truncate.noop,truncate.shortens,truncate.shared_shortens
#[kani::proof]
#[kani::stub(alloc::alloc::alloc, v_alloc)]
#[kani::stub(alloc::alloc::dealloc, v_dealloc)]
#[kani::stub(alloc::alloc::realloc, v_realloc)]
fn truncate_reach() {
    arm_covers();
    truncate_contract(any_repr(REACH_CAP));
}

// ---------------------------------------------------------------------------------------
// pop
// ---------------------------------------------------------------------------------------

/// width of the well-formed scalar that ends exactly at `len` (the local fact global UTF-8
/// validity implies for a non-empty text), 0 if there is none
pub(crate) fn last_scalar_width(p: *const u8, len: usize) -> usize {
    // copy the (up to) five last bytes once; everything else is computed on the copy
    let mut t = [0u8; 5];
    let mut k = 0;
    while k < 5 {
        if k < len {
            t[4 - k] = unsafe { *p.add(len - 1 - k) };
        }
        k += 1;
    }
    let tp = t.as_ptr();
    let mut w = 1;
    while w <= 4 {
        if w <= len && scalar_width_at(tp, 5, 5 - w) == w {
            return w;
        }
        w += 1;
    }
    0
}
/// value of that scalar
pub(crate) fn last_scalar_value(p: *const u8, len: usize, w: usize) -> u32 {
    let mut t = [0u8; 4];
    let mut k = 0;
    while k < 4 {
        if k < len {
            t[3 - k] = unsafe { *p.add(len - 1 - k) };
        }
        k += 1;
    }
    scalar_value_at(t.as_ptr(), 4 - w, w)
}

fn pop_contract(pre: (Repr, Ghost)) {
    unsafe { A_FAIL = true };
    let (mut r, g) = pre;
    let tp = text_ptr(&r, &g);
    let w = last_scalar_width(tp, g.len);
    // requires: the text is valid UTF-8 => non-empty text ends in a well-formed scalar
    kani::assume(g.len == 0 || w != 0);
    // ... and the scalar in front of it ends in an ASCII or continuation byte
    if g.len > w {
        kani::assume(unsafe { *tp.add(g.len - w - 1) } < 0xC0);
    }
    let expect = if g.len == 0 { 0 } else { last_scalar_value(tp, g.len, w) };
    let f = Frame::snapshot(&r, &g);
    let res = r.pop();
    obl!(res.is_ok(), "pop.ok", "C01,C05");
    obl!(wf(&r), "pop.wf", "C01,C03,C07,C20");
    let h = view(&r);
    obl!(f.no_alloc_calls(), "pop.no_alloc_calls", "C03,C09,C10");
    obl!(h.kind == g.kind, "pop.kind_same", "C10");
    if let Ok(v) = res {
        if g.len == 0 {
            cov!(true, "pop.empty");
            obl!(v.is_none(), "pop.none_iff_empty", "C01");
            obl!(f.same_bits(&r), "pop.empty_noop", "C01");
        } else {
            cov!(w == 1, "pop.w1");
            cov!(w == 2, "pop.w2");
            cov!(w == 3, "pop.w3");
            cov!(w == 4, "pop.w4");
            obl!(v.is_some(), "pop.some_iff_non_empty", "C01");
            if let Some(ch) = v {
                obl!(ch as u32 == expect, "pop.returns_last_char", "C01");
            }
            obl!(h.len == g.len - w, "pop.len", "C01");
            if f.ti < g.len - w {
                obl!(text_at(&r, &h, f.ti) == f.tb, "pop.prefix_kept", "C01");
            }
            if g.kind != K_INLINE {
                obl!(word0_ptr(&r) == f.ptr, "pop.pointer_same", "C02,C10,C11");
            }
            obl!(h.cap == g.cap || g.kind == K_STATIC, "pop.capacity_kept", "C11");
        }
    }
    if g.kind == K_HEAP {
        cov!(g.rc > 1 && g.len > 0, "pop.shared");
        obl!(f.old_block_intact(g.rc), "pop.block_and_count_untouched", "C02,C03");
        obl!((h.kind == K_HEAP && h.base == g.base) || (g.rc > 1 && f.old_block_intact(g.rc - 1)) || (g.rc == 1 && !is_live(g.base)), "pop.count_is_number_of_handles_on_the_block", "C02,C03");
    } else {
        obl!(f.static_untouched(), "pop.static_untouched", "C10");
    }
}

// @harness name=pop_heap nodebug=thorough hist=yes props=C01,C02,C03,C07,C11 class=U tier=quick big=yes
#[kani::proof]
#[kani::stub(alloc::alloc::alloc, v_alloc)]
#[kani::stub(alloc::alloc::dealloc, v_dealloc)]
#[kani::stub(alloc::alloc::realloc, v_realloc)]
fn pop_heap() {
    pop_contract(any_heap(MAX_CAP));
}

// @harness name=pop_static props=C01,C07,C10 class=U tier=quick big=yes
#[kani::proof]
#[kani::stub(alloc::alloc::alloc, v_alloc)]
#[kani::stub(alloc::alloc::dealloc, v_dealloc)]
#[kani::stub(alloc::alloc::realloc, v_realloc)]
fn pop_static() {
    pop_contract(any_static(MAX_CAP));
}

// @harness name=pop_inline props=C01,C07,C09 class=U tier=quick
#[kani::proof]
#[kani::stub(alloc::alloc::alloc, v_alloc)]
#[kani::stub(alloc::alloc::dealloc, v_dealloc)]
#[kani::stub(alloc::alloc::realloc, v_realloc)]
fn pop_inline() {
    pop_contract(any_inline());
}

// @harness name=pop_reach props=C01,C02,C03,C07,C10 class=U tier=quick covers=pop.empty,pop.w1,pop.w2,pop.w3,pop.w4,pop.shared
#[kani::proof]
#[kani::stub(alloc::alloc::alloc, v_alloc)]
#[kani::stub(alloc::alloc::dealloc, v_dealloc)]
#[kani::stub(alloc::alloc::realloc, v_realloc)]
fn pop_reach() {
    arm_covers();
    pop_contract(any_repr(REACH_CAP));
}

// ---------------------------------------------------------------------------------------
// set_len (unsafe helper every writer ends with)
// ---------------------------------------------------------------------------------------

fn set_len_contract(pre: (Repr, Ghost)) {
    let (mut r, g) = pre;
    let f = Frame::snapshot(&r, &g);
    let new_len: usize = kani::any();
    // # Safety section of set_len, as `requires`
    kani::assume(new_len <= g.cap);
    kani::assume(g.kind != K_HEAP || g.rc == 1);
    // "the elements at 0..new_len are initialised [valid UTF-8]": for an inline buffer that
    // is filled completely this includes byte 15 being a UTF-8 final byte
    if g.kind == K_INLINE && new_len == MAX_INLINE_SIZE {
        kani::assume(raw_bytes(&r)[15] < 0xC0);
    }
    let bi: usize = kani::any();
    kani::assume(bi < g.cap && !(g.kind == K_INLINE && bi == 15));
    let tp = text_ptr(&r, &g);
    let bb = unsafe { *tp.add(bi) };
    unsafe { r.set_len(new_len) };
    let h = view(&r);
    obl!(h.len == new_len, "set_len.len", "C01");
    obl!(h.kind == g.kind && h.cap == (if g.kind == K_STATIC { new_len } else { g.cap }), "set_len.kind_and_capacity_same", "C11");
    obl!(f.no_alloc_calls(), "set_len.no_alloc_calls", "C03");
    obl!(g.kind == K_INLINE || word0_ptr(&r) == f.ptr, "set_len.pointer_same", "C11");
    obl!(unsafe { *text_ptr(&r, &h).add(bi) } == bb, "set_len.bytes_untouched", "C01");
    if g.kind == K_HEAP {
        obl!(view(&r).rc == 1, "set_len.count_untouched", "C03");
    }
    cov!(true, "set_len.post_reachable");
}

// @harness name=set_len_any props=C01,C03,C11 class=U tier=quick covers=set_len.post_reachable
#[kani::proof]
#[kani::stub(alloc::alloc::alloc, v_alloc)]
#[kani::stub(alloc::alloc::dealloc, v_dealloc)]
#[kani::stub(alloc::alloc::realloc, v_realloc)]
fn set_len_any() {
    arm_covers();
    set_len_contract(any_repr(REACH_CAP));
}

// @harness name=set_len_heap nodebug=quick hist=yes props=C01,C03,C11 class=U tier=quick big=yes
#[kani::proof]
#[kani::stub(alloc::alloc::alloc, v_alloc)]
#[kani::stub(alloc::alloc::dealloc, v_dealloc)]
#[kani::stub(alloc::alloc::realloc, v_realloc)]
fn set_len_heap() {
    set_len_contract(any_heap_rc(MAX_CAP, true));
}

// ---------------------------------------------------------------------------------------
// contract stubs of the two callees every in-place writer starts with (DESIGN 3.5)
//
// A caller is verified against the callee's CONTRACT: the modular harnesses below start from
// a pre-state that already lies in the callee's post-domain (exclusive storage, room for the
// request, same text) - that domain is exactly what `reserve_post` / `ensure_modifiable_post`
// establish on the real callee (obligations compose.*) - and replace the callee by a stub that
// (a) checks the call protocol: called once, with the right argument, before anything was
//     written (handle bits and a symbolic text byte still as on entry),
// (b) returns Err (nothing changed) or Ok (nothing changed: the state is already a post-state).
// ---------------------------------------------------------------------------------------

pub(crate) static mut S_CALLS: usize = 0;
pub(crate) static mut S_ARG: usize = 0;
pub(crate) static mut S_ERR: bool = false;
pub(crate) static mut S_W0: *const () = core::ptr::null();
pub(crate) static mut S_W1: usize = 0;
pub(crate) static mut S_PROBE: *const u8 = core::ptr::null();
pub(crate) static mut S_PROBE_VAL: u8 = 0;
pub(crate) static mut S_UNTOUCHED_AT_CALL: bool = true;

pub(crate) fn stub_arm(r: &Repr, f: &Frame) {
    unsafe {
        S_W0 = r.0;
        S_W1 = word1(r);
        if f.g.len > 0 {
            S_PROBE = text_ptr(r, &f.g).add(f.ti);
            S_PROBE_VAL = f.tb;
        }
    }
}
fn stub_on_call(r: &Repr, arg: usize) {
    unsafe {
        S_CALLS += 1;
        S_ARG = arg;
        let same = r.0 == S_W0 && word1(r) == S_W1 && (S_PROBE.is_null() || *S_PROBE == S_PROBE_VAL);
        if !same {
            S_UNTOUCHED_AT_CALL = false;
        }
    }
}
pub(crate) fn reserve_contract_stub(r: &mut Repr, additional: usize) -> Result<(), ReserveError> {
    stub_on_call(r, additional);
    let g = view(r);
    // the harness' pre-state must be a post-state of reserve(additional)
    kani::assert(
        (g.kind == K_INLINE || (g.kind == K_HEAP && g.rc == 1)) && g.len.checked_add(additional).is_some() && g.cap >= g.len + additional,
        "VERIF-INTERNAL: modular pre-state outside reserve's post-domain",
    );
    if kani::any() {
        unsafe { S_ERR = true };
        Err(ReserveError)
    } else {
        Ok(())
    }
}
pub(crate) fn ensure_modifiable_contract_stub(r: &mut Repr) -> Result<(), ReserveError> {
    stub_on_call(r, 0);
    let g = view(r);
    kani::assert(
        g.kind == K_INLINE || (g.kind == K_HEAP && g.rc == 1),
        "VERIF-INTERNAL: modular pre-state outside ensure_modifiable's post-domain",
    );
    if kani::any() {
        unsafe { S_ERR = true };
        Err(ReserveError)
    } else {
        Ok(())
    }
}

/// exclusive pre-states with room for `n` more bytes (= post-states of `reserve(n)`)
pub(crate) fn any_exclusive_with_room(n: usize, heap: bool, max_cap: usize) -> (Repr, Ghost) {
    if heap {
        let (r, g) = any_heap_rc(max_cap, true);
        kani::assume(g.cap - g.len >= n);
        (r, g)
    } else {
        let (r, g) = any_inline();
        kani::assume(MAX_INLINE_SIZE - g.len >= n);
        (r, g)
    }
}

// ---------------------------------------------------------------------------------------
// push_str, modular (callee `reserve` under contract)
// ---------------------------------------------------------------------------------------

fn push_str_modular(heap: bool, max_cap: usize) {
    unsafe { A_FAIL = true };
    let (s, sp, n) = any_str(max_cap);
    let pr = probe_arg(sp, n);
    let (mut r, g) = any_exclusive_with_room(n, heap, max_cap);
    let f = Frame::snapshot(&r, &g);
    stub_arm(&r, &f);
    let res = r.push_str(s);
    // call protocol
    if n == 0 {
        sobl!(unsafe { S_CALLS } == 0, "push_str.empty_returns_before_reserve", "C01");
    } else {
        sobl!(unsafe { S_CALLS == 1 && S_ARG == n }, "push_str.calls_reserve_once_with_len_of_argument", "C01,C06,C11");
        sobl!(unsafe { S_UNTOUCHED_AT_CALL }, "push_str.nothing_written_before_reserve", "C02,C05");
    }
    sobl!(res.is_err() == unsafe { S_ERR }, "push_str.err_iff_reserve_err", "C01,C05");
    sobl!(f.no_alloc_calls(), "push_str.no_allocator_call_outside_reserve", "C03,C09,C11");
    append_post(&r, &f, g.len, sp, n, &pr, res);
}

// @harness name=push_str_mod_heap nodebug=thorough hist=yes props=C01,C02,C03,C05,C06,C11 class=U tier=quick big=yes fn=Repr::push_str
#[kani::proof]
#[kani::stub(alloc::alloc::alloc, v_alloc)]
#[kani::stub(alloc::alloc::dealloc, v_dealloc)]
#[kani::stub(alloc::alloc::realloc, v_realloc)]
#[kani::stub(Repr::reserve, reserve_contract_stub)]
fn push_str_mod_heap() {
    push_str_modular(true, MAX_CAP);
}

// @harness name=push_str_mod_inline nodebug=thorough hist=yes props=C01,C03,C05,C06,C09,C11 class=U tier=quick fn=Repr::push_str
#[kani::proof]
#[kani::stub(alloc::alloc::alloc, v_alloc)]
#[kani::stub(alloc::alloc::dealloc, v_dealloc)]
#[kani::stub(alloc::alloc::realloc, v_realloc)]
#[kani::stub(Repr::reserve, reserve_contract_stub)]
fn push_str_mod_inline() {
    push_str_modular(false, MAX_CAP);
}

// @harness name=push_str_mod_reach props=C01,C02,C03,C05,C06,C09,C11 class=U tier=quick covers=append.err_reachable,append.ok_reachable,append.unique_fits,append.inline_stays_inline fn=Repr::push_str
#[kani::proof]
#[kani::stub(alloc::alloc::alloc, v_alloc)]
#[kani::stub(alloc::alloc::dealloc, v_dealloc)]
#[kani::stub(alloc::alloc::realloc, v_realloc)]
#[kani::stub(Repr::reserve, reserve_contract_stub)]
fn push_str_mod_reach() {
    arm_covers();
    push_str_modular(kani::any(), REACH_CAP);
}

// ---------------------------------------------------------------------------------------
// remove
// ---------------------------------------------------------------------------------------

/// contract of `core::ptr::copy` (memmove) as a frame: the only bytes that may change are
/// `[dst, dst + count)`; both ranges must be in bounds; the first and the last byte of the
/// destination get the first and last byte of the source (so a text's final byte stays final). Used by the class-U frame harnesses
/// (CBMC does not terminate on an intra-object memmove of symbolic object size; the byte-exact
/// result of the move is proved with the real `ptr::copy` at concrete capacities, class B).
/// arguments of the (single) memmove the code under test issued
pub(crate) static mut MV_CALLS: usize = 0;
pub(crate) static mut MV_SRC: *const u8 = core::ptr::null();
pub(crate) static mut MV_DST: *const u8 = core::ptr::null();
pub(crate) static mut MV_COUNT: usize = 0;

pub(crate) unsafe fn copy_havoc<T>(src: *const T, dst: *mut T, count: usize) {
    let n = count * core::mem::size_of::<T>();
    unsafe {
        MV_CALLS += 1;
        MV_SRC = src as *const u8;
        MV_DST = dst as *const u8;
        MV_COUNT = n;
    }
    if n > 0 {
        unsafe {
            // memmove semantics for the two end bytes (read before anything is written) ...
            let first = *(src as *const u8);
            let last = *(src as *const u8).add(n - 1);
            // ... any value for a byte in between (one symbolic position stands for all)
            let k: usize = kani::any();
            kani::assume(k < n);
            let _ = *(src as *const u8).add(k);
            *(dst as *mut u8).add(k) = kani::any();
            *(dst as *mut u8) = first;
            *(dst as *mut u8).add(n - 1) = last;
        }
    }
}

pub(crate) struct RemoveSpec {
    pub idx: usize,
    pub w: usize,
    pub ch: u32,
    pub j: usize,
    pub jb: u8,
}

/// `requires` of remove as String states it (idx < len, on a char boundary) plus the local
/// UTF-8 facts at the inspected positions; returns the expected results
pub(crate) fn remove_requires(r: &Repr, g: &Ghost) -> RemoveSpec {
    let idx: usize = kani::any();
    kani::assume(idx < g.len);
    let tp = text_ptr(r, g);
    kani::assume(!is_cont(unsafe { *tp.add(idx) }));
    let w = scalar_width_at(tp, g.len, idx);
    kani::assume(w != 0);
    if idx + w == g.len && idx > 0 {
        kani::assume(unsafe { *tp.add(idx - 1) } < 0xC0);
    }
    let ch = scalar_value_at(tp, idx, w);
    let j: usize = kani::any();
    let mut jb = 0;
    if g.len - w > 0 {
        kani::assume(j < g.len - w);
        jb = unsafe { *tp.add(if j < idx { j } else { j + w }) };
    }
    RemoveSpec { idx, w, ch, j, jb }
}

pub(crate) fn remove_post(r: &Repr, f: &Frame, sp: &RemoveSpec, res: Result<char, ReserveError>, content: bool) {
    let g = f.g;
    match res {
        Err(_) => {
            cov!(true, "remove.err_reachable");
            obl!(unchanged_after_error(f, r), "remove.err_unchanged", "C02,C03,C05");
            obl!(wf(r), "remove.err_usable", "C05");
            obl!(unsafe { A_REFUSED > 0 || S_ERR }, "remove.err_only_if_refused", "C01");
        }
        Ok(ch) => {
            cov!(sp.w == 1, "remove.w1");
            cov!(sp.w == 4, "remove.w4");
            let h = view(r);
            obl!(ch as u32 == sp.ch, "remove.returns_char_at_idx", "C01");
            obl!(h.len == g.len - sp.w, "remove.len", "C01");
            obl!(h.kind == K_INLINE || (h.kind == K_HEAP && h.rc == 1), "remove.result_exclusive_and_writable", "C02,C10");
            obl!(f.static_untouched(), "remove.static_untouched", "C10,C02");
            if unsafe { MV_CALLS } > 0 {
                // the index arithmetic of the shift, for symbolic sizes: the code moves exactly
                // text[idx + w .. len) down to idx (that this yields the String text is
                // verus/v_move.rs, given memmove's documented semantics)
                let tp = text_ptr(r, &h);
                obl!(
                    unsafe { MV_CALLS == 1 && MV_DST == tp.add(sp.idx) && MV_SRC == tp.add(sp.idx + sp.w) && MV_COUNT == g.len - sp.idx - sp.w },
                    "remove.memmove_moves_the_tail_down_by_the_char_width",
                    "C01"
                );
            }
            if content {
                obl!(wf(r), "remove.wf", "C01,C03,C07,C20");
                if g.len - sp.w > 0 {
                    obl!(text_at(r, &h, sp.j) == sp.jb, "remove.text_is_old_text_without_the_char", "C01");
                }
            }
            if g.kind == K_INLINE || (g.kind == K_HEAP && g.rc == 1) {
                obl!(f.no_alloc_calls(), "remove.in_place_no_alloc", "C09,C11");
                obl!(g.kind == K_INLINE || (word0_ptr(r) == f.ptr && h.cap == g.cap), "remove.in_place_no_move", "C11");
            } else if g.kind == K_HEAP {
                cov!(true, "remove.shared");
                obl!(f.old_block_intact(g.rc - 1), "remove.shared_old_block_intact", "C02,C03");
                obl!(h.kind == K_HEAP && h.base != g.base, "remove.shared_moves_to_own_block", "C02");
                obl!(
                    f.allocs() == 1 && f.reallocs() == 0 && f.deallocs() == 0 && live_blocks() == f.live + 1,
                    "remove.shared_is_one_alloc",
                    "C03"
                );
            } else {
                cov!(true, "remove.static");
                obl!(
                    (h.len + sp.w <= MAX_INLINE_SIZE) == (h.kind == K_INLINE),
                    "remove.static_moves_inline_iff_it_fits",
                    "C09,C10"
                );
            }
        }
    }
}

fn remove_modular(pre: (Repr, Ghost)) {
    unsafe { A_FAIL = true };
    let (mut r, g) = pre;
    let sp = remove_requires(&r, &g);
    let f = Frame::snapshot(&r, &g);
    stub_arm(&r, &f);
    let res = r.remove(sp.idx);
    sobl!(unsafe { S_CALLS == 1 }, "remove.calls_ensure_modifiable_once", "C01,C02");
    sobl!(unsafe { S_UNTOUCHED_AT_CALL }, "remove.nothing_written_before_ensure_modifiable", "C02,C05");
    sobl!(res.is_err() == unsafe { S_ERR }, "remove.err_iff_ensure_modifiable_err", "C01,C05");
    sobl!(f.no_alloc_calls(), "remove.no_allocator_call_outside_ensure_modifiable", "C03,C09");
    remove_post(&r, &f, &sp, res, true);
}

// @harness name=remove_mod_inline nodebug=thorough hist=yes props=C01,C03,C05,C07,C09 class=U tier=quick fn=Repr::remove covers=remove.err_reachable,remove.w1,remove.w4
#[kani::proof]
#[kani::stub(alloc::alloc::alloc, v_alloc)]
#[kani::stub(alloc::alloc::dealloc, v_dealloc)]
#[kani::stub(alloc::alloc::realloc, v_realloc)]
#[kani::stub(Repr::ensure_modifiable, ensure_modifiable_contract_stub)]
fn remove_mod_inline() {
    arm_covers();
    remove_modular(any_inline());
}

macro_rules! remove_fixed {
    ($name:ident, $cap:expr) => {
        #[kani::proof]
        #[kani::stub(alloc::alloc::alloc, v_alloc)]
        #[kani::stub(alloc::alloc::dealloc, v_dealloc)]
        #[kani::stub(alloc::alloc::realloc, v_realloc)]
        #[kani::stub(Repr::ensure_modifiable, ensure_modifiable_contract_stub)]
        fn $name() {
            let (r, g) = any_heap_fixed($cap);
            kani::assume(g.rc == 1);
            remove_modular((r, g));
        }
    };
}
// @harness name=remove_mod_heap_cap1 props=C01,C03,C05,C07,C11 class=B bound="heap capacity == 1" tier=quick fn=Repr::remove
remove_fixed!(remove_mod_heap_cap1, 1);
// @harness name=remove_mod_heap_cap4 props=C01,C03,C05,C07,C11 class=B bound="heap capacity == 4" tier=quick fn=Repr::remove
remove_fixed!(remove_mod_heap_cap4, 4);
// @harness name=remove_mod_heap_cap17 props=C01,C03,C05,C07,C11 class=B bound="heap capacity == 17" tier=quick fn=Repr::remove
remove_fixed!(remove_mod_heap_cap17, 17);
// @harness name=remove_mod_heap_cap24 props=C01,C03,C05,C07,C11 class=B bound="heap capacity == 24" tier=quick fn=Repr::remove
remove_fixed!(remove_mod_heap_cap24, 24);
// @harness name=remove_mod_heap_cap40 props=C01,C03,C05,C07,C11 class=B bound="heap capacity == 40" tier=thorough fn=Repr::remove
remove_fixed!(remove_mod_heap_cap40, 40);

// (remove with the real memmove on a block of SYMBOLIC capacity <= 256 does not terminate within
// 50 min; the memmove's arguments are proved for symbolic sizes by the frame harnesses below.)

/// whole function, real ensure_modifiable, all storage kinds, symbolic sizes; memmove under
/// its frame contract: every clause except the byte-exact content
fn remove_frame(pre: (Repr, Ghost)) {
    unsafe { A_FAIL = true };
    let (mut r, g) = pre;
    let sp = remove_requires(&r, &g);
    let f = Frame::snapshot(&r, &g);
    let res = r.remove(sp.idx);
    remove_post(&r, &f, &sp, res, false);
}

// @harness name=remove_frame_heap_unique props=C01,C02,C03,C05,C11 class=U tier=thorough big=yes fn=Repr::remove
#[kani::proof]
#[kani::stub(alloc::alloc::alloc, v_alloc)]
#[kani::stub(alloc::alloc::dealloc, v_dealloc)]
#[kani::stub(alloc::alloc::realloc, v_realloc)]
#[kani::stub(core::ptr::copy, copy_havoc)]
fn remove_frame_heap_unique() {
    remove_frame(any_heap_rc(MAX_CAP, true));
}

// @harness name=remove_frame_heap_shared props=C01,C02,C03,C05,C11 class=U tier=thorough big=yes fn=Repr::remove
#[kani::proof]
#[kani::stub(alloc::alloc::alloc, v_alloc)]
#[kani::stub(alloc::alloc::dealloc, v_dealloc)]
#[kani::stub(alloc::alloc::realloc, v_realloc)]
#[kani::stub(core::ptr::copy, copy_havoc)]
fn remove_frame_heap_shared() {
    remove_frame(any_heap_rc(MAX_CAP, false));
}

// @harness name=remove_frame_static props=C01,C03,C05,C09,C10 class=U tier=thorough big=yes fn=Repr::remove
#[kani::proof]
#[kani::stub(alloc::alloc::alloc, v_alloc)]
#[kani::stub(alloc::alloc::dealloc, v_dealloc)]
#[kani::stub(alloc::alloc::realloc, v_realloc)]
#[kani::stub(core::ptr::copy, copy_havoc)]
fn remove_frame_static() {
    remove_frame(any_static(MAX_CAP));
}

// @harness name=remove_frame_reach props=C01,C02,C03,C05,C10 class=U tier=thorough fn=Repr::remove covers=remove.err_reachable,remove.shared,remove.static,remove.w1,remove.w4
#[kani::proof]
#[kani::stub(alloc::alloc::alloc, v_alloc)]
#[kani::stub(alloc::alloc::dealloc, v_dealloc)]
#[kani::stub(alloc::alloc::realloc, v_realloc)]
#[kani::stub(core::ptr::copy, copy_havoc)]
fn remove_frame_reach() {
    arm_covers();
    remove_frame(any_repr(REACH_CAP));
}

// ---------------------------------------------------------------------------------------
// insert_str
// ---------------------------------------------------------------------------------------

pub(crate) fn insert_requires(r: &Repr, g: &Ghost) -> usize {
    let idx: usize = kani::any();
    // String::insert_str accepts exactly the char boundaries 0..=len
    kani::assume(spec_boundary(r, g, idx));
    idx
}

fn insert_str_modular(heap_cap: Option<usize>, max: usize) {
    unsafe { A_FAIL = true };
    let (s, sp, n) = any_str(max);
    let pr = probe_arg(sp, n);
    let (mut r, g) = match heap_cap {
        None => any_exclusive_with_room(n, false, 0),
        Some(c) => {
            let (r, g) = any_heap_fixed(c);
            kani::assume(g.rc == 1 && g.cap - g.len >= n);
            (r, g)
        }
    };
    let idx = insert_requires(&r, &g);
    // local UTF-8 fact for the result's last byte when inserting the empty string at the end
    let f = Frame::snapshot(&r, &g);
    stub_arm(&r, &f);
    unsafe { IS_INSERT = true };
    let res = r.insert_str(idx, s);
    sobl!(unsafe { S_CALLS == 1 && S_ARG == n }, "insert_str.calls_reserve_once_with_len_of_argument", "C01,C06,C11");
    sobl!(unsafe { S_UNTOUCHED_AT_CALL }, "insert_str.nothing_written_before_reserve", "C02,C05");
    sobl!(res.is_err() == unsafe { S_ERR }, "insert_str.err_iff_reserve_err", "C01,C05");
    sobl!(f.no_alloc_calls(), "insert_str.no_allocator_call_outside_reserve", "C03,C09,C11");
    cov!(res.is_ok() && idx > 0 && idx < g.len && n > 0, "insert_str.middle");
    append_post(&r, &f, idx, sp, n, &pr, res);
}

// @harness name=insert_str_mod_inline nodebug=thorough hist=yes props=C01,C03,C05,C06,C07,C09,C11 class=U tier=quick fn=Repr::insert_str covers=insert_str.middle,append.err_reachable
#[kani::proof]
#[kani::stub(alloc::alloc::alloc, v_alloc)]
#[kani::stub(alloc::alloc::dealloc, v_dealloc)]
#[kani::stub(alloc::alloc::realloc, v_realloc)]
#[kani::stub(Repr::reserve, reserve_contract_stub)]
fn insert_str_mod_inline() {
    arm_covers();
    insert_str_modular(None, 16);
}

macro_rules! insert_fixed {
    ($name:ident, $cap:expr) => {
        #[kani::proof]
        #[kani::stub(alloc::alloc::alloc, v_alloc)]
        #[kani::stub(alloc::alloc::dealloc, v_dealloc)]
        #[kani::stub(alloc::alloc::realloc, v_realloc)]
        #[kani::stub(Repr::reserve, reserve_contract_stub)]
        fn $name() {
            insert_str_modular(Some($cap), $cap);
        }
    };
}
// @harness name=insert_str_mod_heap_cap1 props=C01,C03,C05,C06,C07,C11 class=B bound="heap capacity == 1" tier=quick fn=Repr::insert_str
insert_fixed!(insert_str_mod_heap_cap1, 1);
// @harness name=insert_str_mod_heap_cap5 props=C01,C03,C05,C06,C07,C11 class=B bound="heap capacity == 5" tier=quick fn=Repr::insert_str
insert_fixed!(insert_str_mod_heap_cap5, 5);
// @harness name=insert_str_mod_heap_cap17 props=C01,C03,C05,C06,C07,C11 class=B bound="heap capacity == 17" tier=quick fn=Repr::insert_str
insert_fixed!(insert_str_mod_heap_cap17, 17);
// @harness name=insert_str_mod_heap_cap24 props=C01,C03,C05,C06,C07,C11 class=B bound="heap capacity == 24" tier=quick fn=Repr::insert_str
insert_fixed!(insert_str_mod_heap_cap24, 24);
// @harness name=insert_str_mod_heap_cap40 props=C01,C03,C05,C06,C07,C11 class=B bound="heap capacity == 40" tier=thorough fn=Repr::insert_str
insert_fixed!(insert_str_mod_heap_cap40, 40);

// NOTE (measured): the non-modular cross-check - whole insert_str / remove with the real callee
// AND the real memmove - does not terminate within 50 min / 24 GB even for a shared block of
// concrete capacity 20, so it is not part of any tier. The whole-function claim is the
// composition of the callee contract (verif_ops.rs), the call-protocol obligations and the
// modular body contract above; `remove_frame_*` checks it end to end for everything except the
// byte-exact result of the move.

// ---------------------------------------------------------------------------------------
// retain  (class B: the loop is unwound, text <= RN bytes)
// ---------------------------------------------------------------------------------------

pub(crate) const RN: usize = 6;

/// every position of the text starts or continues a well-formed scalar (= UTF-8 validity of
/// a text of at most RN bytes, by walking it)
fn valid_utf8_bounded(p: *const u8, len: usize) -> bool {
    let mut pos = 0;
    let mut k = 0;
    while k < RN {
        if pos < len {
            let w = scalar_width_at(p, len, pos);
            if w == 0 {
                return false;
            }
            pos += w;
        }
        k += 1;
    }
    pos == len
}

static mut R_DECISION: [bool; RN] = [false; RN];
static mut R_SEEN: [u32; RN] = [0; RN];
static mut R_CALLS: usize = 0;

fn retain_contract(pre: (Repr, Ghost), modular: bool) {
    unsafe { A_FAIL = true };
    let (mut r, g) = pre;
    kani::assume(g.len <= RN);
    let tp = text_ptr(&r, &g);
    kani::assume(valid_utf8_bounded(tp, g.len));
    // copy of the old text
    let mut old = [0u8; RN];
    let mut i = 0;
    while i < RN {
        if i < g.len {
            old[i] = unsafe { *tp.add(i) };
        }
        i += 1;
    }
    let f = Frame::snapshot(&r, &g);
    stub_arm(&r, &f);
    let res = r.retain(|c| {
        let d: bool = kani::any();
        unsafe {
            if R_CALLS < RN {
                R_DECISION[R_CALLS] = d;
                R_SEEN[R_CALLS] = c as u32;
            }
            R_CALLS += 1;
        }
        d
    });
    if modular {
        sobl!(unsafe { S_CALLS == 1 }, "retain.calls_ensure_modifiable_once", "C01,C02");
        sobl!(unsafe { S_UNTOUCHED_AT_CALL }, "retain.nothing_written_before_ensure_modifiable", "C02,C05");
        sobl!(res.is_err() == unsafe { S_ERR }, "retain.err_iff_ensure_modifiable_err", "C01,C05");
        sobl!(f.no_alloc_calls(), "retain.no_allocator_call_outside_ensure_modifiable", "C03,C09");
    }
    match res {
        Err(_) => {
            cov!(true, "retain.err_reachable");
            obl!(unchanged_after_error(&f, &r), "retain.err_unchanged", "C02,C03,C05");
            obl!(unsafe { R_CALLS } == 0, "retain.err_before_any_callback", "C05");
        }
        Ok(()) => {
            // expected text: the kept scalars of the old text, in order
            let mut exp = [0u8; RN];
            let mut elen = 0;
            let mut pos = 0;
            let mut k = 0;
            let mut seen_ok = true;
            let op = old.as_ptr();
            while k < RN {
                if pos < g.len {
                    let w = scalar_width_at(op, g.len, pos);
                    if unsafe { R_SEEN[k] } != scalar_value_at(op, pos, w) {
                        seen_ok = false;
                    }
                    if unsafe { R_DECISION[k] } {
                        let mut j = 0;
                        while j < 4 {
                            if j < w {
                                exp[elen + j] = old[pos + j];
                            }
                            j += 1;
                        }
                        elen += w;
                    }
                    pos += w;
                    k += 1;
                } else {
                    break;
                }
            }
            cov!(k >= 2 && elen > 0 && elen < g.len, "retain.some_kept_some_dropped");
            obl!(unsafe { R_CALLS } == k, "retain.predicate_called_once_per_char", "C01");
            obl!(seen_ok, "retain.predicate_sees_the_chars_in_order", "C01");
            let h = view(&r);
            obl!(h.len == elen, "retain.len", "C01");
            let mut same = true;
            let mut i = 0;
            while i < RN {
                if i < elen && i < h.len && text_at(&r, &h, i) != exp[i] {
                    same = false;
                }
                i += 1;
            }
            obl!(same, "retain.text_is_kept_chars_in_order", "C01");
            obl!(h.kind == K_INLINE || (h.kind == K_HEAP && h.rc == 1), "retain.result_exclusive_and_writable", "C02,C10");
            obl!(f.static_untouched(), "retain.static_untouched", "C10,C02");
            if g.kind == K_HEAP && g.rc > 1 {
                cov!(true, "retain.shared");
                obl!(f.old_block_intact(g.rc - 1), "retain.shared_old_block_intact", "C02,C03");
            }
            if g.kind == K_HEAP && g.rc == 1 {
                obl!(word0_ptr(&r) == f.ptr && h.cap == g.cap && f.no_alloc_calls(), "retain.in_place_no_alloc_no_move", "C11");
            }
            if g.kind == K_INLINE {
                obl!(h.kind == K_INLINE && f.no_alloc_calls(), "retain.inline_stays_inline", "C09");
            }
        }
    }
}

// @harness name=retain_mod_inline hist=yes props=C01,C03,C05,C09 class=B bound="text <= 6 bytes, loop unwound" unwind=18 tier=quick fn=Repr::retain covers=retain.some_kept_some_dropped,retain.err_reachable
#[kani::proof]
#[kani::stub(alloc::alloc::alloc, v_alloc)]
#[kani::stub(alloc::alloc::dealloc, v_dealloc)]
#[kani::stub(alloc::alloc::realloc, v_realloc)]
#[kani::stub(Repr::ensure_modifiable, ensure_modifiable_contract_stub)]
fn retain_mod_inline() {
    arm_covers();
    retain_contract(any_inline(), true);
}

// @harness name=retain_mod_heap_cap6 props=C01,C03,C05,C11 class=B bound="unique heap block of capacity 6, loop unwound" unwind=18 tier=quick fn=Repr::retain
#[kani::proof]
#[kani::stub(alloc::alloc::alloc, v_alloc)]
#[kani::stub(alloc::alloc::dealloc, v_dealloc)]
#[kani::stub(alloc::alloc::realloc, v_realloc)]
#[kani::stub(Repr::ensure_modifiable, ensure_modifiable_contract_stub)]
fn retain_mod_heap_cap6() {
    let (r, g) = any_heap_fixed(RN);
    kani::assume(g.rc == 1);
    retain_contract((r, g), true);
}

// NOTE (measured): retain with the REAL ensure_modifiable on a shared block / static text
// (non-modular) exhausts 30 GB in propositional reduction even at capacity 6; not part of any
// tier. The shared/static cases are the composition of ensure_modifiable's contract with the
// modular harnesses above.

// ---------------------------------------------------------------------------------------
// bad indices: panic exactly when String does, and nothing happened before (DESIGN 3.8)
// ---------------------------------------------------------------------------------------

fn trap_em(_r: &mut Repr) -> Result<(), ReserveError> {
    obl!(false, "bad_index.ensure_modifiable_reached_before_index_check", "C07");
    Ok(())
}
fn trap_reserve(_r: &mut Repr, _n: usize) -> Result<(), ReserveError> {
    obl!(false, "bad_index.reserve_reached_before_index_check", "C07");
    Ok(())
}
unsafe fn trap_set_len(_r: &mut Repr, _n: usize) {
    obl!(false, "bad_index.set_len_reached_before_index_check", "C07");
}
unsafe fn trap_truncate_unchecked(_r: &mut Repr, _n: usize) -> Result<(), ReserveError> {
    obl!(false, "bad_index.truncate_unchecked_reached_before_index_check", "C07");
    Ok(())
}
fn trap_replace_inner(_r: &mut Repr, _o: Repr) {
    obl!(false, "bad_index.replace_inner_reached_before_index_check", "C07");
}

// @harness name=remove_bad_index nodebug=quick props=C07,C01 class=U tier=quick big=yes fn=Repr::remove expect_fail="in function repr::Repr::remove$"
#[kani::proof]
#[kani::stub(alloc::alloc::alloc, v_alloc)]
#[kani::stub(alloc::alloc::dealloc, v_dealloc)]
#[kani::stub(alloc::alloc::realloc, v_realloc)]
#[kani::stub(Repr::ensure_modifiable, trap_em)]
#[kani::stub(Repr::set_len, trap_set_len)]
#[kani::stub(Repr::replace_inner, trap_replace_inner)]
fn remove_bad_index() {
    unsafe { A_TRAP = true };
    let (mut r, g) = any_repr(MAX_CAP);
    let idx: usize = kani::any();
    // String::remove panics iff idx >= len or idx is not on a char boundary
    kani::assume(idx >= g.len || !spec_boundary(&r, &g, idx));
    let _ = r.remove(idx);
    obl!(false, "remove.panics_on_bad_index", "C07,C01");
}

// @harness name=insert_str_bad_index nodebug=quick props=C07,C01 class=U tier=quick big=yes fn=Repr::insert_str expect_fail="in function repr::Repr::insert_str$"
#[kani::proof]
#[kani::stub(alloc::alloc::alloc, v_alloc)]
#[kani::stub(alloc::alloc::dealloc, v_dealloc)]
#[kani::stub(alloc::alloc::realloc, v_realloc)]
#[kani::stub(Repr::reserve, trap_reserve)]
#[kani::stub(Repr::set_len, trap_set_len)]
#[kani::stub(Repr::replace_inner, trap_replace_inner)]
fn insert_str_bad_index() {
    unsafe { A_TRAP = true };
    let (mut r, g) = any_repr(MAX_CAP);
    let (s, _sp, _n) = any_str(REACH_CAP);
    let idx: usize = kani::any();
    // String::insert_str panics iff idx is not a char boundary (which includes idx > len)
    kani::assume(!spec_boundary(&r, &g, idx));
    let _ = r.insert_str(idx, s);
    obl!(false, "insert_str.panics_on_bad_index", "C07,C01");
}

// @harness name=truncate_bad_index nodebug=quick props=C07,C01 class=U tier=quick big=yes fn=Repr::truncate expect_fail="in function repr::Repr::truncate$"
#[kani::proof]
#[kani::stub(alloc::alloc::alloc, v_alloc)]
#[kani::stub(alloc::alloc::dealloc, v_dealloc)]
#[kani::stub(alloc::alloc::realloc, v_realloc)]
#[kani::stub(Repr::truncate_unchecked, trap_truncate_unchecked)]
#[kani::stub(Repr::set_len, trap_set_len)]
#[kani::stub(Repr::replace_inner, trap_replace_inner)]
fn truncate_bad_index() {
    unsafe { A_TRAP = true };
    let (mut r, g) = any_repr(MAX_CAP);
    let new_len: usize = kani::any();
    // String::truncate panics iff new_len < len and new_len is not on a char boundary
    kani::assume(new_len < g.len && !spec_boundary(&r, &g, new_len));
    let _ = r.truncate(new_len);
    obl!(false, "truncate.panics_on_bad_index", "C07,C01");
}

// the complementary direction (accepts every good index) for remove / insert_str: the
// panicking asserts are unreachable under String's acceptance condition. For truncate it is
// part of truncate_contract (any panic there is a failed check).
// @harness name=remove_good_index props=C07,C01 class=U tier=quick big=yes fn=Repr::remove
#[kani::proof]
#[kani::stub(alloc::alloc::alloc, v_alloc)]
#[kani::stub(alloc::alloc::dealloc, v_dealloc)]
#[kani::stub(alloc::alloc::realloc, v_realloc)]
#[kani::stub(Repr::ensure_modifiable, good_index_stop_em)]
fn remove_good_index() {
    let (mut r, g) = any_repr(MAX_CAP);
    let idx: usize = kani::any();
    kani::assume(idx < g.len && spec_boundary(&r, &g, idx));
    let _ = r.remove(idx);
}
/// the index checks are over when the first callee is reached: stop the path there
fn good_index_stop_em(_r: &mut Repr) -> Result<(), ReserveError> {
    Err(ReserveError)
}
fn good_index_stop_reserve(_r: &mut Repr, _n: usize) -> Result<(), ReserveError> {
    Err(ReserveError)
}

// @harness name=insert_str_good_index props=C07,C01 class=U tier=quick big=yes fn=Repr::insert_str
#[kani::proof]
#[kani::stub(alloc::alloc::alloc, v_alloc)]
#[kani::stub(alloc::alloc::dealloc, v_dealloc)]
#[kani::stub(alloc::alloc::realloc, v_realloc)]
#[kani::stub(Repr::reserve, good_index_stop_reserve)]
fn insert_str_good_index() {
    let (mut r, g) = any_repr(MAX_CAP);
    let (s, _sp, _n) = any_str(REACH_CAP);
    let idx: usize = kani::any();
    kani::assume(spec_boundary(&r, &g, idx));
    let _ = r.insert_str(idx, s);
}
