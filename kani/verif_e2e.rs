// Injected as `src/verif_e2e.rs` (child of the crate root, cfg(kani)).
//
// END-TO-END semantic contracts through the public API, with NO callee stubbed: the real
// reserve / ensure_modifiable / set_len and (where CBMC can take it) the real memmove. They
// decide the properties independently of how a caller is decomposed into callees:
//   * inline targets: every well-formed 16-byte value (complete), arguments <= 24 bytes;
//   * heap / static targets: capacity / object size <= 48 (class B), shared and unique;
//     for insert / remove the intra-buffer memmove is under its frame contract (`copy_havoc`),
//     so these check everything except the byte-exact position of the shifted tail.
#![allow(dead_code, unused_imports, unused_variables, static_mut_refs)]

use crate::repr::verif_edit::*;
use crate::repr::verif_mod::{any_str, probe_arg, spec_encode};
use crate::repr::verif_repr::*;
use crate::repr::Repr;
use crate::*;

const ECAP: usize = 48;
const EARG: usize = 24;

fn small(kind: u8) -> (Repr, Ghost) {
    if kind == 0 { any_static(ECAP) } else if kind == 1 { any_heap_rc(ECAP, true) } else { any_heap_rc(ECAP, false) }
}

// ---------------------------------------------------------------------------------------
// push_str / push / += / write_str
// ---------------------------------------------------------------------------------------

fn e2e_push_str(pre: (Repr, Ghost)) {
    unsafe { A_FAIL = true };
    let (r, g) = pre;
    let f = Frame::snapshot(&r, &g);
    let mut s = LeanString(r);
    let (a, ap, n) = any_str(EARG);
    let pr = probe_arg(ap, n);
    let res = s.try_push_str(a);
    append_post(&s.0, &f, g.len, ap, n, &pr, res);
    core::mem::forget(s);
}

// @harness name=e2e_push_str_inline props=C01,C03,C05,C06,C09,C11,C12 class=U tier=quick fn=LeanString::try_push_str covers=append.inline_stays_inline,append.inline_to_heap,append.err_reachable
#[kani::proof]
#[kani::stub(alloc::alloc::alloc, v_alloc)]
#[kani::stub(alloc::alloc::dealloc, v_dealloc)]
#[kani::stub(alloc::alloc::realloc, v_realloc)]
fn e2e_push_str_inline() {
    arm_covers();
    e2e_push_str(any_inline());
}

// @harness name=e2e_push_str_static props=C01,C02,C03,C05,C06,C10,C11,C12 class=B bound="static object <= 48, argument <= 24 bytes" tier=quick fn=LeanString::try_push_str timeout=700
#[kani::proof]
#[kani::stub(alloc::alloc::alloc, v_alloc)]
#[kani::stub(alloc::alloc::dealloc, v_dealloc)]
#[kani::stub(alloc::alloc::realloc, v_realloc)]
fn e2e_push_str_static() {
    e2e_push_str(small(0));
}

// @harness name=e2e_push_str_unique props=C01,C02,C03,C05,C06,C10,C11,C12 class=B bound="unique heap block of capacity <= 48, argument <= 24 bytes" tier=quick fn=LeanString::try_push_str timeout=700
#[kani::proof]
#[kani::stub(alloc::alloc::alloc, v_alloc)]
#[kani::stub(alloc::alloc::dealloc, v_dealloc)]
#[kani::stub(alloc::alloc::realloc, v_realloc)]
fn e2e_push_str_unique() {
    e2e_push_str(small(1));
}

// @harness name=e2e_push_str_shared props=C01,C02,C03,C05,C06,C10,C11,C12 class=B bound="shared heap block of capacity <= 48, argument <= 24 bytes" tier=quick fn=LeanString::try_push_str timeout=700
#[kani::proof]
#[kani::stub(alloc::alloc::alloc, v_alloc)]
#[kani::stub(alloc::alloc::dealloc, v_dealloc)]
#[kani::stub(alloc::alloc::realloc, v_realloc)]
fn e2e_push_str_shared() {
    e2e_push_str(small(2));
}

fn e2e_push_char(pre: (Repr, Ghost)) {
    unsafe { A_FAIL = true };
    let (r, g) = pre;
    let f = Frame::snapshot(&r, &g);
    let mut s = LeanString(r);
    let ch: char = kani::any();
    let (e, w) = spec_encode(ch as u32);
    let res = s.try_push(ch);
    let h = view(&s.0);
    match res {
        Err(_) => obl!(unchanged_after_error(&f, &s.0), "push.err_unchanged", "C05"),
        Ok(()) => {
            obl!(wf(&s.0), "push.wf", "C01,C07");
            obl!(h.len == g.len + w, "push.len_grows_by_utf8_width", "C01");
            let i: usize = kani::any();
            kani::assume(i < w);
            obl!(text_at(&s.0, &h, g.len + i) == e[i], "push.appends_the_utf8_encoding", "C01");
            obl!(f.text_probe_same(&s.0, &h), "push.old_text_kept", "C01");
            if g.kind == K_INLINE && g.len + w <= 16 {
                cov!(true, "push.inline_stays_inline");
                obl!(h.kind == K_INLINE && f.no_alloc_calls(), "push.inline_within_16_bytes_no_alloc", "C09");
            }
            if g.kind == K_HEAP && g.rc == 1 && g.cap >= g.len + w {
                obl!(f.no_alloc_calls() && word0_ptr(&s.0) == f.ptr, "push.no_alloc_no_move_if_fits_and_unique", "C11");
            }
            if g.kind == K_HEAP && g.rc > 1 {
                obl!(f.old_block_intact(g.rc - 1), "push.shared_old_block_intact", "C02,C03");
            }
        }
    }
    obl!(f.static_untouched(), "push.static_untouched", "C10");
    core::mem::forget(s);
}

// @harness name=e2e_push_char_inline nodebug=thorough props=C01,C05,C07,C09 class=U tier=quick fn=LeanString::try_push covers=push.inline_stays_inline
#[kani::proof]
#[kani::stub(alloc::alloc::alloc, v_alloc)]
#[kani::stub(alloc::alloc::dealloc, v_dealloc)]
#[kani::stub(alloc::alloc::realloc, v_realloc)]
fn e2e_push_char_inline() {
    arm_covers();
    e2e_push_char(any_inline());
}

// @harness name=e2e_push_char_static props=C01,C02,C03,C05,C10,C11 class=B bound="static object <= 48, argument <= 24 bytes" tier=quick fn=LeanString::try_push timeout=700
#[kani::proof]
#[kani::stub(alloc::alloc::alloc, v_alloc)]
#[kani::stub(alloc::alloc::dealloc, v_dealloc)]
#[kani::stub(alloc::alloc::realloc, v_realloc)]
fn e2e_push_char_static() {
    e2e_push_char(small(0));
}

// @harness name=e2e_push_char_unique props=C01,C02,C03,C05,C10,C11 class=B bound="unique heap block of capacity <= 48, argument <= 24 bytes" tier=quick fn=LeanString::try_push timeout=700
#[kani::proof]
#[kani::stub(alloc::alloc::alloc, v_alloc)]
#[kani::stub(alloc::alloc::dealloc, v_dealloc)]
#[kani::stub(alloc::alloc::realloc, v_realloc)]
fn e2e_push_char_unique() {
    e2e_push_char(small(1));
}

// @harness name=e2e_push_char_shared props=C01,C02,C03,C05,C10,C11 class=B bound="shared heap block of capacity <= 48, argument <= 24 bytes" tier=quick fn=LeanString::try_push timeout=700
#[kani::proof]
#[kani::stub(alloc::alloc::alloc, v_alloc)]
#[kani::stub(alloc::alloc::dealloc, v_dealloc)]
#[kani::stub(alloc::alloc::realloc, v_realloc)]
fn e2e_push_char_shared() {
    e2e_push_char(small(2));
}

// ---------------------------------------------------------------------------------------
// insert_str / insert
// ---------------------------------------------------------------------------------------

fn e2e_insert_str(pre: (Repr, Ghost), exact_text: bool) {
    unsafe { A_FAIL = true };
    let (r, g) = pre;
    let (a, ap, n) = any_str(EARG);
    let pr = probe_arg(ap, n);
    let idx = insert_requires(&r, &g);
    let f = Frame::snapshot(&r, &g);
    if !exact_text {
        // memmove under its frame contract: only the stable prefix [0, idx) is probed
        kani::assume(g.len == 0 || idx == 0 || f.ti < idx);
        unsafe { SKIP_TEXT_PROBE = idx == 0 };
    }
    let mut s = LeanString(r);
    unsafe { IS_INSERT = true };
    let res = s.try_insert_str(idx, a);
    append_post(&s.0, &f, idx, ap, n, &pr, res);
    core::mem::forget(s);
}

// @harness name=e2e_insert_str_inline props=C01,C03,C05,C06,C07,C09,C11,C12 class=U tier=quick fn=LeanString::try_insert_str covers=append.inline_stays_inline,append.inline_to_heap timeout=700
#[kani::proof]
#[kani::stub(alloc::alloc::alloc, v_alloc)]
#[kani::stub(alloc::alloc::dealloc, v_dealloc)]
#[kani::stub(alloc::alloc::realloc, v_realloc)]
#[kani::stub(core::ptr::copy, copy_havoc)]
fn e2e_insert_str_inline() {
    arm_covers();
    // (with the real callees in place CBMC cannot resolve which object the memmove works on,
    // so it is under its frame contract here too; the byte-exact tail is insert_str_mod_inline)
    let (r, g) = any_inline();
    e2e_insert_str((r, g), false);
}

// @harness name=e2e_insert_str_static props=C01,C02,C03,C05,C06,C10,C11,C12 class=B bound="static object <= 48, argument <= 24 bytes; memmove under its frame contract" tier=thorough fn=LeanString::try_insert_str timeout=2400
#[kani::proof]
#[kani::stub(alloc::alloc::alloc, v_alloc)]
#[kani::stub(alloc::alloc::dealloc, v_dealloc)]
#[kani::stub(alloc::alloc::realloc, v_realloc)]
#[kani::stub(core::ptr::copy, copy_havoc)]
fn e2e_insert_str_static() {
    e2e_insert_str(small(0), false);
}

// @harness name=e2e_insert_str_unique props=C01,C02,C03,C05,C06,C10,C11,C12 class=B bound="unique heap block of capacity <= 48, argument <= 24 bytes; memmove under its frame contract" tier=thorough fn=LeanString::try_insert_str timeout=2400
#[kani::proof]
#[kani::stub(alloc::alloc::alloc, v_alloc)]
#[kani::stub(alloc::alloc::dealloc, v_dealloc)]
#[kani::stub(alloc::alloc::realloc, v_realloc)]
#[kani::stub(core::ptr::copy, copy_havoc)]
fn e2e_insert_str_unique() {
    e2e_insert_str(small(1), false);
}

// @harness name=e2e_insert_str_shared props=C01,C02,C03,C05,C06,C10,C11,C12 class=B bound="shared heap block of capacity <= 48, argument <= 24 bytes; memmove under its frame contract" tier=thorough fn=LeanString::try_insert_str timeout=2400
#[kani::proof]
#[kani::stub(alloc::alloc::alloc, v_alloc)]
#[kani::stub(alloc::alloc::dealloc, v_dealloc)]
#[kani::stub(alloc::alloc::realloc, v_realloc)]
#[kani::stub(core::ptr::copy, copy_havoc)]
fn e2e_insert_str_shared() {
    e2e_insert_str(small(2), false);
}

fn e2e_insert_char(pre: (Repr, Ghost)) {
    unsafe { A_FAIL = true };
    let (r, g) = pre;
    let idx = insert_requires(&r, &g);
    let f = Frame::snapshot(&r, &g);
    let mut s = LeanString(r);
    let ch: char = kani::any();
    let (e, w) = spec_encode(ch as u32);
    let res = s.try_insert(idx, ch);
    let h = view(&s.0);
    match res {
        Err(_) => obl!(unchanged_after_error(&f, &s.0), "insert.err_unchanged", "C05"),
        Ok(()) => {
            obl!(h.len == g.len + w, "insert.len_grows_by_utf8_width", "C01");
            if g.kind == K_INLINE && g.len + w <= 16 {
                cov!(true, "insert.inline_stays_inline");
                obl!(h.kind == K_INLINE && f.no_alloc_calls(), "insert.inline_within_16_bytes_no_alloc", "C09");
                obl!(wf(&s.0), "insert.wf", "C01,C07");
                let i: usize = kani::any();
                kani::assume(i < w);
                obl!(text_at(&s.0, &h, idx + i) == e[i], "insert.puts_the_utf8_encoding_at_idx", "C01");
                if g.len > 0 && f.ti < idx {
                    obl!(text_at(&s.0, &h, f.ti) == f.tb, "insert.prefix_kept", "C01");
                }
            }
            if g.kind == K_HEAP && g.rc == 1 && g.cap >= g.len + w {
                obl!(f.no_alloc_calls() && word0_ptr(&s.0) == f.ptr, "insert.no_alloc_no_move_if_fits_and_unique", "C11");
            }
            if g.kind == K_HEAP && g.rc > 1 {
                obl!(f.old_block_intact(g.rc - 1), "insert.shared_old_block_intact", "C02,C03");
            }
        }
    }
    obl!(f.static_untouched(), "insert.static_untouched", "C10");
    core::mem::forget(s);
}

// @harness name=e2e_insert_char_inline props=C01,C05,C07,C09 class=U tier=quick fn=LeanString::try_insert covers=insert.inline_stays_inline timeout=700
#[kani::proof]
#[kani::stub(alloc::alloc::alloc, v_alloc)]
#[kani::stub(alloc::alloc::dealloc, v_dealloc)]
#[kani::stub(alloc::alloc::realloc, v_realloc)]
#[kani::stub(core::ptr::copy, copy_havoc)]
fn e2e_insert_char_inline() {
    arm_covers();
    e2e_insert_char(any_inline());
}

// @harness name=e2e_insert_char_static props=C01,C02,C03,C05,C10,C11 class=B bound="static object <= 48, argument <= 24 bytes; memmove under its frame contract" tier=quick fn=LeanString::try_insert timeout=700
#[kani::proof]
#[kani::stub(alloc::alloc::alloc, v_alloc)]
#[kani::stub(alloc::alloc::dealloc, v_dealloc)]
#[kani::stub(alloc::alloc::realloc, v_realloc)]
#[kani::stub(core::ptr::copy, copy_havoc)]
fn e2e_insert_char_static() {
    e2e_insert_char(small(0));
}

// @harness name=e2e_insert_char_unique props=C01,C02,C03,C05,C10,C11 class=B bound="unique heap block of capacity <= 48, argument <= 24 bytes; memmove under its frame contract" tier=quick fn=LeanString::try_insert timeout=700
#[kani::proof]
#[kani::stub(alloc::alloc::alloc, v_alloc)]
#[kani::stub(alloc::alloc::dealloc, v_dealloc)]
#[kani::stub(alloc::alloc::realloc, v_realloc)]
#[kani::stub(core::ptr::copy, copy_havoc)]
fn e2e_insert_char_unique() {
    e2e_insert_char(small(1));
}

// @harness name=e2e_insert_char_shared nodebug=thorough props=C01,C02,C03,C05,C10,C11 class=B bound="shared heap block of capacity <= 48, argument <= 24 bytes; memmove under its frame contract" tier=quick fn=LeanString::try_insert timeout=700
#[kani::proof]
#[kani::stub(alloc::alloc::alloc, v_alloc)]
#[kani::stub(alloc::alloc::dealloc, v_dealloc)]
#[kani::stub(alloc::alloc::realloc, v_realloc)]
#[kani::stub(core::ptr::copy, copy_havoc)]
fn e2e_insert_char_shared() {
    e2e_insert_char(small(2));
}

// ---------------------------------------------------------------------------------------
// remove / retain, inline (real memmove; every well-formed inline value)
// ---------------------------------------------------------------------------------------

// @harness name=e2e_remove_inline props=C01,C05,C07,C09 class=U tier=quick fn=LeanString::try_remove covers=remove.w1,remove.w4 timeout=700
#[kani::proof]
#[kani::stub(alloc::alloc::alloc, v_alloc)]
#[kani::stub(alloc::alloc::dealloc, v_dealloc)]
#[kani::stub(alloc::alloc::realloc, v_realloc)]
#[kani::stub(core::ptr::copy, copy_havoc)]
fn e2e_remove_inline() {
    arm_covers();
    unsafe { A_FAIL = true };
    let (r, g) = any_inline();
    let sp = remove_requires(&r, &g);
    let f = Frame::snapshot(&r, &g);
    let mut s = LeanString(r);
    let res = s.try_remove(sp.idx);
    remove_post(&s.0, &f, &sp, res, false);
    core::mem::forget(s);
}

// @harness name=e2e_remove_static props=C01,C02,C03,C05,C10,C11 class=B bound="static object <= 48, argument <= 24 bytes; memmove under its frame contract" tier=quick fn=LeanString::try_remove timeout=700
#[kani::proof]
#[kani::stub(alloc::alloc::alloc, v_alloc)]
#[kani::stub(alloc::alloc::dealloc, v_dealloc)]
#[kani::stub(alloc::alloc::realloc, v_realloc)]
#[kani::stub(core::ptr::copy, copy_havoc)]
fn e2e_remove_static() {
    unsafe { A_FAIL = true };
    let (r, g) = small(0);
    let sp = remove_requires(&r, &g);
    let f = Frame::snapshot(&r, &g);
    let mut s = LeanString(r);
    let res = s.try_remove(sp.idx);
    remove_post(&s.0, &f, &sp, res, false);
    core::mem::forget(s);
}

// @harness name=e2e_remove_unique props=C01,C02,C03,C05,C10,C11 class=B bound="unique heap block of capacity <= 48, argument <= 24 bytes; memmove under its frame contract" tier=quick fn=LeanString::try_remove timeout=700
#[kani::proof]
#[kani::stub(alloc::alloc::alloc, v_alloc)]
#[kani::stub(alloc::alloc::dealloc, v_dealloc)]
#[kani::stub(alloc::alloc::realloc, v_realloc)]
#[kani::stub(core::ptr::copy, copy_havoc)]
fn e2e_remove_unique() {
    unsafe { A_FAIL = true };
    let (r, g) = small(1);
    let sp = remove_requires(&r, &g);
    let f = Frame::snapshot(&r, &g);
    let mut s = LeanString(r);
    let res = s.try_remove(sp.idx);
    remove_post(&s.0, &f, &sp, res, false);
    core::mem::forget(s);
}

// @harness name=e2e_remove_shared props=C01,C02,C03,C05,C10,C11 class=B bound="shared heap block of capacity <= 48, argument <= 24 bytes; memmove under its frame contract" tier=quick fn=LeanString::try_remove timeout=700
#[kani::proof]
#[kani::stub(alloc::alloc::alloc, v_alloc)]
#[kani::stub(alloc::alloc::dealloc, v_dealloc)]
#[kani::stub(alloc::alloc::realloc, v_realloc)]
#[kani::stub(core::ptr::copy, copy_havoc)]
fn e2e_remove_shared() {
    unsafe { A_FAIL = true };
    let (r, g) = small(2);
    let sp = remove_requires(&r, &g);
    let f = Frame::snapshot(&r, &g);
    let mut s = LeanString(r);
    let res = s.try_remove(sp.idx);
    remove_post(&s.0, &f, &sp, res, false);
    core::mem::forget(s);
}


// ---------------------------------------------------------------------------------------
// fmt::Write::write_str (what `write!` and the generic to_lean_string fallback go through)
// ---------------------------------------------------------------------------------------

// @harness name=e2e_write_str_inline props=C01,C05,C15 class=U tier=quick fn=fmt::Write::write_str expect_fail="do_panic_with_msg" covers=write_str.ok
#[kani::proof]
#[kani::stub(alloc::alloc::alloc, v_alloc)]
#[kani::stub(alloc::alloc::dealloc, v_dealloc)]
#[kani::stub(alloc::alloc::realloc, v_realloc)]
fn e2e_write_str_inline() {
    use core::fmt::Write;
    arm_covers();
    unsafe { A_FAIL = true };
    let (r, g) = any_inline();
    let f = Frame::snapshot(&r, &g);
    let mut s = LeanString(r);
    let (a, ap, n) = any_str(EARG);
    let pr = probe_arg(ap, n);
    let res = s.write_str(a);
    // reached only if write_str returned: an allocation failure is a panic (C05), never an
    // fmt::Error - `Err(Fmt)` is reserved for a Display impl that reports an error (C15)
    obl!(res.is_ok(), "write_str.never_turns_allocation_failure_into_fmt_error", "C05,C15");
    obl!(unsafe { A_REFUSED == 0 }, "write_str.returns_only_if_nothing_was_refused", "C05");
    cov!(true, "write_str.ok");
    append_post(&s.0, &f, g.len, ap, n, &pr, Ok(()));
    core::mem::forget(s);
}
