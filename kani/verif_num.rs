// Injected as `src/repr/num_to_repr/verif_num.rs` (child of `crate::repr::num_to_repr`, cfg(kani)).
//
// Kani side of C14: the digit table the Verus proof abstracts as `lut`, the buffer hand-over
// (with_capacity / as_slice_mut / set_len) the Verus extraction drops, and the UNREWRITTEN
// writer for the 8- and 16-bit types over their full domain (which also validates the rewrite
// rules of verus/v_num.rs on the types where both tools apply).
#![allow(dead_code, unused_imports, unused_variables, static_mut_refs)]

use super::*;
use crate::repr::verif_repr::*;

// @harness name=lut_table props=C14 class=U tier=quick fn=DEC_DIGITS_LUT
#[kani::proof]
fn lut_table() {
    let i: usize = kani::any();
    kani::assume(i < 200);
    let want = if i % 2 == 0 { 48 + ((i / 2) / 10) as u8 } else { 48 + ((i / 2) % 10) as u8 };
    obl!(DEC_DIGITS_LUT[i] == want, "lut.table_matches_formula", "C14");
    obl!(DEC_DIGITS_LUT.len() == 200, "lut.table_has_200_bytes", "C14");
}

// @harness name=num_buffer_handover props=C14,C09 class=U tier=quick fn=Repr::with_capacity,Repr::as_slice_mut,Repr::set_len covers=handover.inline,handover.heap
#[kani::proof]
#[kani::stub(alloc::alloc::alloc, v_alloc)]
#[kani::stub(alloc::alloc::dealloc, v_dealloc)]
#[kani::stub(alloc::alloc::realloc, v_realloc)]
fn num_buffer_handover() {
    arm_covers();
    // what the writer does around the digit loop, for every digit count it can ask for
    let dc: usize = kani::any();
    kani::assume(dc >= 1 && dc <= 20);
    let r = Repr::with_capacity(dc);
    if let Ok(mut repr) = r {
        let g = view(&repr);
        let (p, n) = {
            let s = unsafe { repr.as_slice_mut() };
            (s.as_mut_ptr(), s.len())
        };
        obl!(n >= dc && n == g.cap, "handover.slice_is_capacity_long", "C14,C11");
        obl!(p as *const u8 == text_ptr(&repr, &g), "handover.slice_starts_at_text", "C14");
        cov!(g.kind == K_INLINE, "handover.inline");
        cov!(g.kind == K_HEAP, "handover.heap");
        obl!((dc <= 16) == (g.kind == K_INLINE) && (dc <= 16) == (alloc_calls() == 0), "handover.le_16_digits_stay_inline_without_alloc", "C09");
        // the writer fills [0, dc) with ASCII and then sets the length
        let i: usize = kani::any();
        kani::assume(i < dc);
        let d: u8 = kani::any();
        kani::assume(d < 0x80);
        unsafe { *p.add(dc - 1) = d };
        unsafe { *p.add(i) = d };
        unsafe { repr.set_len(dc) };
        let h = view(&repr);
        obl!(h.len == dc && text_at(&repr, &h, i) == d, "handover.set_len_exposes_the_written_bytes", "C14");
        obl!(wf(&repr), "handover.wf", "C14,C20");
    }
}

/// sign ++ decimal digits of |x| without leading zeros, checked by parsing the text back
fn is_decimal_of(bytes: &[u8], neg: bool, mag: u32) -> bool {
    let n = bytes.len();
    let start = if neg { 1 } else { 0 };
    if n <= start || n > 7 {
        return false;
    }
    if neg && bytes[0] != b'-' {
        return false;
    }
    if n - start > 1 && bytes[start] == b'0' {
        return false;
    }
    let mut acc: u32 = 0;
    let mut i = 0;
    while i < 7 {
        if i >= start && i < n {
            let d = bytes[i];
            if d < b'0' || d > b'9' {
                return false;
            }
            acc = acc * 10 + (d - b'0') as u32;
        }
        i += 1;
    }
    acc == mag
}

macro_rules! num_full_domain {
    ($name:ident, $t:ty, $neg:expr, $mag:expr) => {
        #[kani::proof]
        #[kani::unwind(9)]
        #[kani::stub(alloc::alloc::alloc, v_alloc)]
        #[kani::stub(alloc::alloc::dealloc, v_dealloc)]
        #[kani::stub(alloc::alloc::realloc, v_realloc)]
        fn $name() {
            let x: $t = kani::any();
            let r = Repr::from_num(x);
            obl!(r.is_ok(), "num.small_types_never_fail", "C14,C09");
            if let Ok(r) = r {
                obl!(wf(&r) && view(&r).kind == K_INLINE && alloc_calls() == 0, "num.small_types_inline_no_alloc", "C09");
                let neg: bool = ($neg)(x);
                let mag: u32 = ($mag)(x);
                obl!(is_decimal_of(r.as_bytes(), neg, mag), "num.text_is_sign_and_decimal_digits", "C14");
            }
        }
    };
}
// @harness name=num_u8 props=C14,C09 class=U tier=quick fn=NumToRepr<u8>::into_repr
num_full_domain!(num_u8, u8, |_x: u8| false, |x: u8| x as u32);
// @harness name=num_i8 props=C14,C09 class=U tier=quick fn=NumToRepr<i8>::into_repr
num_full_domain!(num_i8, i8, |x: i8| x < 0, |x: i8| (x as i32).unsigned_abs());
// @harness name=num_u16 props=C14,C09 class=U tier=quick fn=NumToRepr<u16>::into_repr timeout=1500
num_full_domain!(num_u16, u16, |_x: u16| false, |x: u16| x as u32);
// @harness name=num_i16 props=C14,C09 class=U tier=quick fn=NumToRepr<i16>::into_repr timeout=1500
num_full_domain!(num_i16, i16, |x: i16| x < 0, |x: i16| (x as i32).unsigned_abs());

// @harness name=num_nonzero props=C14 class=U tier=quick fn=NumToRepr<NonZero<T>>::into_repr
#[kani::proof]
#[kani::unwind(18)]
fn num_nonzero() {
    let x: u8 = kani::any();
    kani::assume(x != 0);
    let nz = NonZero::<u8>::new(x).unwrap();
    let a = Repr::from_num(nz);
    let b = Repr::from_num(x);
    if let (Ok(a), Ok(b)) = (&a, &b) {
        obl!(raw_bytes(a) == raw_bytes(b), "num.nonzero_is_get", "C14");
    }
}

// ---------------------------------------------------------------------------------------
// i128 / u128: the crate hands the value to the `itoa` crate and the text to from_str.
// Delegation contract (itoa's digits themselves are a dependency's: assumed)
// ---------------------------------------------------------------------------------------

static mut I_CALLS: usize = 0;
static mut I_SIZE: usize = 0;
static mut I_VAL: [u8; 16] = [0; 16];
static mut F_CALLS: usize = 0;
static mut F_PTR: *const u8 = core::ptr::null();
static mut F_LEN: usize = 0;
static ITOA_OUT: &str = "itoa-output";

fn rec_itoa<I: itoa::Integer>(_b: &mut itoa::Buffer, i: I) -> &str {
    unsafe {
        I_CALLS += 1;
        I_SIZE = core::mem::size_of::<I>();
        if core::mem::size_of::<I>() == 16 {
            I_VAL = core::mem::transmute_copy::<I, [u8; 16]>(&i);
        }
    }
    ITOA_OUT
}
fn rec_from_str(text: &str) -> Result<Repr, ReserveError> {
    unsafe {
        F_CALLS += 1;
        F_PTR = text.as_ptr();
        F_LEN = text.len();
    }
    Ok(Repr::new())
}

/// the 64-bit writers must not be what formats a 128-bit value (they are replaced here so that a
/// detour through them is a cheap, visible event instead of a symbolic run of the digit loop)
static mut OTHER_PATH: usize = 0;
static mut OTHER_VAL: i128 = 0;
static mut OTHER_UVAL: u128 = 0;
fn other_path_i64(x: i64) -> Result<Repr, ReserveError> {
    unsafe {
        OTHER_PATH += 1;
        OTHER_VAL = x as i128;
        OTHER_UVAL = x as u128;
    }
    Ok(Repr::new())
}
fn other_path_u64(x: u64) -> Result<Repr, ReserveError> {
    unsafe {
        OTHER_PATH += 1;
        OTHER_VAL = x as i128;
        OTHER_UVAL = x as u128;
    }
    Ok(Repr::new())
}

// @harness name=num_128_delegates props=C14 class=U tier=quick fn=NumToRepr<i128>::into_repr,NumToRepr<u128>::into_repr
#[kani::proof]
#[kani::stub(itoa::Buffer::format, rec_itoa)]
#[kani::stub(Repr::from_str, rec_from_str)]
#[kani::stub(<i64 as crate::repr::num_to_repr::NumToRepr>::into_repr, other_path_i64)]
#[kani::stub(<u64 as crate::repr::num_to_repr::NumToRepr>::into_repr, other_path_u64)]
fn num_128_delegates() {
    let signed: bool = kani::any();
    let bits: [u8; 16] = kani::any();
    let r = if signed { Repr::from_num(i128::from_ne_bytes(bits)) } else { Repr::from_num(u128::from_ne_bytes(bits)) };
    sobl!(r.is_ok(), "num128.ok", "C14");
    // semantic: IF a 128-bit value is handed to a (verified) 64-bit writer, the narrowing must be
    // lossless - otherwise the text printed is that of another number
    let (ov, ou) = unsafe { (OTHER_VAL, OTHER_UVAL) };
    let lossless = if signed { ov == i128::from_ne_bytes(bits) } else { ou == u128::from_ne_bytes(bits) };
    obl!(unsafe { OTHER_PATH } == 0 || lossless, "num128.a_detour_through_a_64_bit_writer_is_lossless", "C14");
    sobl!(unsafe { OTHER_PATH > 0 || (I_CALLS == 1 && I_SIZE == 16 && I_VAL == bits) }, "num128.every_value_goes_to_itoa_unchanged", "C14");
    sobl!(unsafe { OTHER_PATH > 0 || (F_CALLS == 1 && F_PTR == ITOA_OUT.as_ptr() && F_LEN == ITOA_OUT.len()) }, "num128.text_is_itoas_output", "C14");
}

// ---------------------------------------------------------------------------------------
// f32 / f64: the crate hands the value to `ryu` and the text to from_str. Only this hand-over
// is under contract (round-tripping is ryu's and core::str::parse's: outside this technique).
// ---------------------------------------------------------------------------------------

static mut R_CALLS: usize = 0;
static mut R_BITS: u64 = 0;
static mut R_SIZE: usize = 0;
static RYU_OUT: &str = "ryu-output";

fn rec_ryu<F: ryu::Float>(_b: &mut ryu::Buffer, f: F) -> &str {
    unsafe {
        R_CALLS += 1;
        R_SIZE = core::mem::size_of::<F>();
        if core::mem::size_of::<F>() == 8 {
            R_BITS = core::mem::transmute_copy::<F, u64>(&f);
        } else if core::mem::size_of::<F>() == 4 {
            R_BITS = core::mem::transmute_copy::<F, u32>(&f) as u64;
        }
    }
    RYU_OUT
}

// @harness name=float_delegates props=C15 class=U tier=quick fn=NumToRepr<f32>::into_repr,NumToRepr<f64>::into_repr
#[kani::proof]
#[kani::stub(ryu::Buffer::format, rec_ryu)]
#[kani::stub(Repr::from_str, rec_from_str)]
fn float_delegates() {
    let wide: bool = kani::any();
    let bits: u64 = kani::any();
    let r = if wide { Repr::from_num(f64::from_bits(bits)) } else { Repr::from_num(f32::from_bits(bits as u32)) };
    let want = if wide { bits } else { (bits as u32) as u64 };
    sobl!(r.is_ok(), "float.ok", "C15");
    // every bit pattern (NaNs, infinities, both zeros, subnormals) reaches ryu unchanged
    sobl!(unsafe { R_CALLS == 1 && R_SIZE == (if wide { 8 } else { 4 }) && R_BITS == want }, "float.every_bit_pattern_goes_to_ryu_unchanged", "C15");
    sobl!(unsafe { F_CALLS == 1 && F_PTR == RYU_OUT.as_ptr() && F_LEN == RYU_OUT.len() }, "float.text_is_ryus_output", "C15");
}
