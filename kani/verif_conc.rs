// Injected as `src/repr/verif_conc.rs` (child of `crate::repr`), compiled only with
// `--cfg loom` (the crate's own seam) against the stand-in `loom` crate in /verif/shim/loom.
//
// C04, the part a sequential verifier can decide: every count-touching operation of the real
// code, run as ONE thread against an environment that holds any number of other handles to the
// same block and may clone/drop them at every atomic operation (see shim/loom/src/lib.rs).
#![cfg(loom)]
#![allow(dead_code, unused_imports, unused_variables, static_mut_refs)]

use super::verif_repr::*;
use super::*;
use loom::sync::atomic as la;

unsafe extern "Rust" {
    fn __rust_dealloc(ptr: *mut u8, size: usize, align: usize);
}

const CCAP: usize = 64;

unsafe fn env_free(p: *mut u8) {
    // the environment's last drop: same bookkeeping as the crate's own dealloc
    unsafe {
        let sz = live_size(p);
        env_mark_dead(p);
        __rust_dealloc(p, sz, 8);
    }
}
fn env_mark_dead(p: *mut u8) {
    let mut i = 0;
    while i < NB {
        unsafe {
            if B_LIVE[i] && B_PTR[i] == p {
                B_LIVE[i] = false;
            }
        }
        i += 1;
    }
}

/// allocator stubs of the concurrent harnesses: the sequential protocol obligations (verif_repr)
/// plus "exclusive use only after an Acquire" and "never while the environment holds a handle"
unsafe fn c_dealloc(p: *mut u8, layout: core::alloc::Layout) {
    unsafe {
        obl!(la::ACQ, "conc.acquire_before_dealloc", "C04");
        obl!(!(p == la::ENV_BLOCK) || (la::ENV_OWNED == 0 && !la::ENV_FREED), "conc.dealloc_only_without_other_owners", "C04");
        v_dealloc(p, layout)
    }
}
unsafe fn c_realloc(p: *mut u8, layout: core::alloc::Layout, n: usize) -> *mut u8 {
    unsafe {
        obl!(la::ACQ, "conc.acquire_before_realloc", "C04");
        obl!(!(p == la::ENV_BLOCK) || (la::ENV_OWNED == 0 && !la::ENV_FREED), "conc.realloc_only_without_other_owners", "C04");
        v_realloc(p, layout, n)
    }
}

struct Conc {
    r: Repr,
    g: Ghost,
    f: Frame,
}

fn conc_setup() -> Conc {
    unsafe { A_FAIL = true };
    let (r, g) = any_heap(CCAP);
    // (the overflow arm of make_shallow_clone needs 2^63 handles; not under contract)
    kani::assume(g.rc <= 1 << 60);
    // of the rc handles on the block, one is ours; the environment holds the others
    let f = Frame::snapshot(&r, &g);
    unsafe {
        la::ENV_BLOCK = g.base;
        la::ENV_OWNED = g.rc - 1;
        la::ENV_FREE = Some(env_free);
        la::ENV_ON = true;
    }
    Conc { r, g, f }
}

/// what must hold afterwards, whatever the environment did in between
fn conc_post(c: &Conc, r: &Repr, extra_mine: usize, check_text: bool) {
    let g = c.g;
    let h = view_nonblock(r);
    let on_block = h.0 == K_HEAP && h.1 == g.base;
    let mine = (if on_block { 1 } else { 0 }) + extra_mine;
    unsafe {
        if la::ENV_FREED {
            cov!(true, "conc.env_freed_the_block");
            obl!(mine == 0, "conc.no_handle_of_ours_on_a_block_the_others_freed", "C04");
        } else if is_live(g.base) {
            let count = *(g.base as *const usize);
            obl!(count == la::ENV_OWNED + mine, "conc.count_is_number_of_handles", "C04");
            obl!(*(g.base as *const usize).add(1) == g.cap || la::ENV_OWNED == 0, "conc.capacity_stable_under_readers", "C04");
            if la::ENV_OWNED > 0 {
                // the environment can still read the block: every byte as before
                obl!(*g.base.add(HDR + c.f.bi) == c.f.bb, "conc.bytes_stable_under_readers", "C04");
            }
        } else {
            // we released it ourselves: only legal if nobody else was left
            obl!(la::ENV_OWNED == 0 && mine == 0, "conc.released_only_as_last_owner", "C04");
        }
    }
    if check_text && wf_nonblock(r) {
        let hv = view(r);
        obl!(hv.len == g.len && c.f.text_probe_same(r, &hv), "conc.thread_reads_back_its_own_text", "C04");
    }
    cov!(true, "conc.post_reachable");
}

/// (kind, base) without touching the block (it may have been freed by the environment)
fn view_nonblock(r: &Repr) -> (u8, *mut u8) {
    let lb = lastb(r);
    if lb == 0xD0 {
        (K_HEAP, unsafe { word0_ptr(r).sub(HDR) })
    } else if lb == 0xD1 {
        (K_STATIC, word0_ptr(r))
    } else {
        (K_INLINE, core::ptr::null_mut())
    }
}
fn wf_nonblock(r: &Repr) -> bool {
    let (k, b) = view_nonblock(r);
    k != K_HEAP || is_live(b)
}

macro_rules! conc_harness {
    ($name:ident, |$c:ident| $body:block) => {
        #[kani::proof]
        #[kani::stub(alloc::alloc::alloc, v_alloc)]
        #[kani::stub(alloc::alloc::dealloc, c_dealloc)]
        #[kani::stub(alloc::alloc::realloc, c_realloc)]
        fn $name() {
            arm_covers();
            let mut $c = conc_setup();
            $body
        }
    };
}

// @harness name=conc_reserve props=C04 class=B bound="block capacity <= 64; one thread against an arbitrary environment, SC" cfg=loom features=loom tier=quick covers=conc.post_reachable,conc.env_freed_the_block timeout=1800
conc_harness!(conc_reserve, |c| {
    let add: usize = kani::any();
    let res = c.r.reserve(add);
    let r = unsafe { core::ptr::read(&c.r) };
    conc_post(&c, &r, 0, true);
    // staying on the old block after Ok means we are its only owner and may write in place:
    // that conclusion must rest on an Acquire observation of the count
    if res.is_ok() && view_nonblock(&r).1 == c.g.base {
        obl!(unsafe { la::ACQ }, "conc.acquire_before_exclusive_use", "C04");
        obl!(unsafe { la::ENV_OWNED == 0 }, "conc.exclusive_use_only_without_other_owners", "C04");
    }
});

// @harness name=conc_ensure_modifiable props=C04 class=B bound="block capacity <= 64; SC environment" cfg=loom features=loom tier=quick covers=conc.post_reachable timeout=1800
conc_harness!(conc_ensure_modifiable, |c| {
    let res = c.r.ensure_modifiable();
    let r = unsafe { core::ptr::read(&c.r) };
    conc_post(&c, &r, 0, true);
    // staying on the old block after Ok means we are its only owner and may write in place:
    // that conclusion must rest on an Acquire observation of the count
    if res.is_ok() && view_nonblock(&r).1 == c.g.base {
        obl!(unsafe { la::ACQ }, "conc.acquire_before_exclusive_use", "C04");
        obl!(unsafe { la::ENV_OWNED == 0 }, "conc.exclusive_use_only_without_other_owners", "C04");
    }
});

// @harness name=conc_shrink_to props=C04 class=B bound="block capacity <= 64; SC environment" cfg=loom features=loom tier=quick covers=conc.post_reachable timeout=1800
conc_harness!(conc_shrink_to, |c| {
    let m: usize = kani::any();
    let _ = c.r.shrink_to(m);
    let r = unsafe { core::ptr::read(&c.r) };
    conc_post(&c, &r, 0, true);
});

// @harness name=conc_clone_drop props=C04 class=B bound="block capacity <= 64; SC environment" cfg=loom features=loom tier=quick covers=conc.post_reachable timeout=1800
conc_harness!(conc_clone_drop, |c| {
    // a reference to our handle may be shared with other threads: cloning through it ...
    let mut k = c.r.make_shallow_clone();
    let r = unsafe { core::ptr::read(&c.r) };
    conc_post(&c, &r, 1, true);
    // ... and dropping the copy
    k.replace_inner(Repr::new());
    conc_post(&c, &r, 0, true);
});

// @harness name=conc_drop props=C04 class=B bound="block capacity <= 64; SC environment" cfg=loom features=loom tier=quick covers=conc.post_reachable,conc.env_freed_the_block timeout=1800
conc_harness!(conc_drop, |c| {
    c.r.replace_inner(Repr::new());
    let r = unsafe { core::ptr::read(&c.r) };
    conc_post(&c, &r, 0, false);
});

// @harness name=conc_clear props=C04 class=B bound="block capacity <= 64; SC environment" cfg=loom features=loom tier=quick covers=conc.post_reachable timeout=1800
conc_harness!(conc_clear, |c| {
    let mut s = crate::LeanString(unsafe { core::ptr::read(&c.r) });
    s.clear();
    let r = unsafe { core::ptr::read(&s.0) };
    core::mem::forget(s);
    conc_post(&c, &r, 0, false);
});
