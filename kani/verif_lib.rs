// Injected as `src/verif_lib.rs` (child of the crate root, cfg(kani)).
//
// Contracts of the public `LeanString` API on top of the `Repr` contracts:
//   * clear / Drop / Clone / clone_from / From<&LeanString>: real code end to end,
//   * every try_* and plain method, fmt::Write, Add, AddAssign, Extend, FromIterator:
//     DELEGATION contracts - the callee `Repr::f` is replaced by a recorder stub (its contract
//     is proved in verif_ops.rs / verif_edit.rs); the obligation is that the wrapper calls it
//     exactly once, on its own `Repr`, with exactly its arguments, returns exactly its result,
//     and (plain forms) panics iff the result is `Err`.
#![allow(dead_code, unused_imports, unused_variables, static_mut_refs)]

use crate::repr::verif_repr::*;
use crate::repr::Repr;
use crate::*;

fn ls(pre: (Repr, Ghost)) -> (LeanString, Ghost) {
    (LeanString(pre.0), pre.1)
}

// ---------------------------------------------------------------------------------------
// clear
// ---------------------------------------------------------------------------------------

fn clear_contract(pre: (Repr, Ghost)) {
    unsafe { A_FAIL = true };
    let (mut s, g) = ls(pre);
    let f = Frame::snapshot(&s.0, &g);
    s.clear();
    let h = view(&s.0);
    obl!(wf(&s.0), "clear.wf", "C01,C03,C20");
    obl!(h.len == 0, "clear.empty", "C01");
    obl!(f.no_alloc_calls() || (g.kind == K_HEAP && g.rc > 1), "clear.no_alloc_calls", "C03,C09,C10");
    if g.kind == K_HEAP && g.rc > 1 {
        cov!(true, "clear.shared");
        obl!(f.old_block_intact(g.rc - 1), "clear.shared_block_intact_rc_minus_one", "C02,C03");
        obl!(h.kind == K_INLINE && f.no_alloc_calls(), "clear.shared_becomes_empty_inline", "C02");
    } else if g.kind == K_HEAP {
        cov!(true, "clear.unique");
        obl!(h.kind == K_HEAP && word0_ptr(&s.0) == f.ptr && h.cap == g.cap && h.rc == 1, "clear.unique_keeps_buffer", "C11");
    } else if g.kind == K_STATIC {
        obl!(h.kind == K_STATIC && word0_ptr(&s.0) == f.ptr, "clear.static_keeps_pointer", "C10");
        obl!(f.static_untouched(), "clear.static_untouched", "C10");
    } else {
        obl!(h.kind == K_INLINE, "clear.inline_stays_inline", "C09");
    }
    core::mem::forget(s);
}

// @harness name=clear_heap nodebug=thorough hist=yes props=C01,C02,C03,C11 class=U tier=quick big=yes fn=LeanString::clear
#[kani::proof]
#[kani::stub(alloc::alloc::alloc, v_alloc)]
#[kani::stub(alloc::alloc::dealloc, v_dealloc)]
#[kani::stub(alloc::alloc::realloc, v_realloc)]
fn clear_heap() {
    clear_contract(any_heap(MAX_CAP));
}

// @harness name=clear_other hist=yes props=C01,C09,C10 class=U tier=quick covers=clear.shared,clear.unique fn=LeanString::clear
#[kani::proof]
#[kani::stub(alloc::alloc::alloc, v_alloc)]
#[kani::stub(alloc::alloc::dealloc, v_dealloc)]
#[kani::stub(alloc::alloc::realloc, v_realloc)]
fn clear_other() {
    arm_covers();
    clear_contract(any_repr(REACH_CAP));
}

// ---------------------------------------------------------------------------------------
// Drop, Clone, clone_from, From<&LeanString>
// ---------------------------------------------------------------------------------------

fn drop_contract(pre: (Repr, Ghost)) {
    let (s, g) = ls(pre);
    let f = Frame::snapshot(&s.0, &g);
    drop(s);
    if g.kind == K_HEAP {
        if g.rc > 1 {
            cov!(true, "drop.shared");
            obl!(f.old_block_intact(g.rc - 1) && f.no_alloc_calls(), "drop.shared_rc_minus_one_block_intact", "C02,C03,C08,C11");
        } else {
            cov!(true, "drop.last_owner");
            obl!(
                f.deallocs() == 1 && f.allocs() == 0 && f.reallocs() == 0 && !is_live(g.base) && live_blocks() == f.live - 1,
                "drop.last_owner_frees_exactly_once",
                "C03"
            );
        }
    } else {
        obl!(f.no_alloc_calls() && f.static_untouched(), "drop.non_heap_is_free_of_effects", "C03,C09,C10");
    }
}

// @harness name=drop_heap nodebug=thorough hist=yes props=C02,C03,C08,C11 class=U tier=quick big=yes fn=Drop::drop
#[kani::proof]
#[kani::stub(alloc::alloc::alloc, v_alloc)]
#[kani::stub(alloc::alloc::dealloc, v_dealloc)]
#[kani::stub(alloc::alloc::realloc, v_realloc)]
fn drop_heap() {
    drop_contract(any_heap(MAX_CAP));
}

// @harness name=drop_other hist=yes props=C03,C09,C10 class=U tier=quick covers=drop.shared,drop.last_owner fn=Drop::drop
#[kani::proof]
#[kani::stub(alloc::alloc::alloc, v_alloc)]
#[kani::stub(alloc::alloc::dealloc, v_dealloc)]
#[kani::stub(alloc::alloc::realloc, v_realloc)]
fn drop_other() {
    arm_covers();
    drop_contract(any_repr(REACH_CAP));
}

fn clone_drop_contract(pre: (Repr, Ghost), which: u8) {
    unsafe { A_FAIL = true };
    let (s, g) = ls(pre);
    let f = Frame::snapshot(&s.0, &g);
    let c = if which == 0 {
        s.clone()
    } else if which == 1 {
        LeanString::from(&s)
    } else {
        let mut t = LeanString::new();
        t.clone_from(&s);
        t
    };
    obl!(f.no_alloc_calls(), "clone.api_no_alloc", "C08");
    obl!(f.same_bits(&c.0) && f.same_bits(&s.0), "clone.api_bitwise_same", "C08,C01");
    obl!(c.as_ptr() == s.as_ptr() || g.kind == K_INLINE, "clone.api_points_at_same_bytes", "C08,C10");
    obl!(c.len() == s.len(), "clone.api_same_len", "C08,C17");
    if g.kind == K_HEAP {
        obl!(f.old_block_intact(g.rc + 1), "clone.api_rc_plus_one", "C03,C08");
    }
    // dropping either one leaves the other intact
    let first: bool = kani::any();
    if first {
        drop(c);
        obl!(f.same_bits(&s.0) && wf(&s.0), "clone.drop_copy_leaves_original", "C02,C08");
        if g.kind == K_HEAP {
            obl!(f.old_block_intact(g.rc), "clone.drop_copy_restores_count", "C03,C08");
        }
        core::mem::forget(s);
    } else {
        drop(s);
        obl!(f.same_bits(&c.0) && wf(&c.0), "clone.drop_original_leaves_copy", "C02,C08");
        if g.kind == K_HEAP {
            obl!(f.old_block_intact(g.rc), "clone.drop_original_restores_count", "C03,C08");
        }
        core::mem::forget(c);
    }
    obl!(f.no_alloc_calls(), "clone.api_drop_one_no_dealloc", "C03,C08");
    cov!(true, "clone.api_post_reachable");
}

// @harness name=clone_api_heap props=C01,C02,C03,C08 class=U tier=quick big=yes fn=Clone::clone,Clone::clone_from,From<&LeanString>
#[kani::proof]
#[kani::stub(alloc::alloc::alloc, v_alloc)]
#[kani::stub(alloc::alloc::dealloc, v_dealloc)]
#[kani::stub(alloc::alloc::realloc, v_realloc)]
fn clone_api_heap() {
    let w: u8 = kani::any();
    kani::assume(w < 3);
    clone_drop_contract(any_heap(MAX_CAP), w);
}

// @harness name=clone_api_other props=C01,C08,C09,C10 class=U tier=quick covers=clone.api_post_reachable fn=Clone::clone,Clone::clone_from,From<&LeanString>
#[kani::proof]
#[kani::stub(alloc::alloc::alloc, v_alloc)]
#[kani::stub(alloc::alloc::dealloc, v_dealloc)]
#[kani::stub(alloc::alloc::realloc, v_realloc)]
fn clone_api_other() {
    arm_covers();
    let w: u8 = kani::any();
    kani::assume(w < 3);
    clone_drop_contract(any_repr(REACH_CAP), w);
}

/// clone_from where target and source may be ANY two handles, including two handles on the
/// same block with different lengths
// @harness name=clone_from_any_pair nodebug=thorough props=C01,C02,C03,C08 class=U tier=quick fn=Clone::clone_from covers=clone_from.same_block,clone_from.target_last_owner
#[kani::proof]
#[kani::stub(alloc::alloc::alloc, v_alloc)]
#[kani::stub(alloc::alloc::dealloc, v_dealloc)]
#[kani::stub(alloc::alloc::realloc, v_realloc)]
fn clone_from_any_pair() {
    arm_covers();
    let (src, sg) = ls(any_repr(REACH_CAP));
    let same_block: bool = kani::any();
    let (mut dst, dg) = if same_block && sg.kind == K_HEAP && sg.rc >= 2 {
        // a second handle on the same block, with its own length
        let len2: usize = kani::any();
        kani::assume(len2 <= sg.cap);
        if len2 > 0 {
            kani::assume(unsafe { *sg.base.add(HDR + len2 - 1) } < 0xC0);
        }
        let r: Repr = unsafe {
            core::mem::transmute(RawWords(sg.base.add(HDR) as *const u8, len2 | (0xD0usize << 56)))
        };
        let g = view(&r);
        (LeanString(r), g)
    } else {
        ls(any_repr(REACH_CAP))
    };
    let fs = Frame::snapshot(&src.0, &sg);
    let fd = Frame::snapshot(&dst.0, &dg);
    let shared_block = sg.kind == K_HEAP && dg.kind == K_HEAP && sg.base == dg.base;
    cov!(shared_block, "clone_from.same_block");
    cov!(dg.kind == K_HEAP && dg.rc == 1, "clone_from.target_last_owner");
    dst.clone_from(&src);
    obl!(fs.same_bits(&dst.0) && fs.same_bits(&src.0), "clone_from.target_is_bitwise_source", "C01,C08");
    obl!(wf(&dst.0) && wf(&src.0), "clone_from.wf", "C01,C03");
    obl!(fs.allocs() == 0 && fs.reallocs() == 0, "clone_from.no_alloc", "C08");
    if shared_block {
        obl!(fs.old_block_intact(sg.rc), "clone_from.same_block_count_net_unchanged", "C02,C03");
    } else {
        if sg.kind == K_HEAP {
            obl!(fs.old_block_intact(sg.rc + 1), "clone_from.source_rc_plus_one", "C03,C08");
        }
        if dg.kind == K_HEAP {
            if dg.rc > 1 {
                obl!(fd.old_block_intact(dg.rc - 1), "clone_from.old_target_block_rc_minus_one", "C02,C03");
            } else {
                obl!(!is_live(dg.base) && fs.deallocs() == 1, "clone_from.old_target_block_freed_once", "C03");
            }
        }
    }
    core::mem::forget(dst);
    core::mem::forget(src);
}

/// clone_from into a target that SHARES its block with a third handle, from a source that is
/// not on the heap: the case where "reuse my own allocation" would write into shared bytes
// @harness name=clone_from_into_shared_target props=C01,C02,C03,C08 class=B bound="target: shared heap block of capacity 24; source: inline or static object <= 24" tier=quick fn=Clone::clone_from covers=clone_from.small_post_reachable
#[kani::proof]
#[kani::stub(alloc::alloc::alloc, v_alloc)]
#[kani::stub(alloc::alloc::dealloc, v_dealloc)]
#[kani::stub(alloc::alloc::realloc, v_realloc)]
fn clone_from_into_shared_target() {
    arm_covers();
    let (rd, dg) = any_heap_fixed(24);
    kani::assume(dg.rc >= 2);
    let src_static: bool = kani::any();
    let (rs, sg) = if src_static { any_static(24) } else { any_inline() };
    let (mut dst, src) = (LeanString(rd), LeanString(rs));
    let fd = Frame::snapshot(&dst.0, &dg);
    let fs = Frame::snapshot(&src.0, &sg);
    dst.clone_from(&src);
    obl!(fd.old_block_intact(dg.rc - 1), "clone_from.shared_target_block_untouched_rc_minus_one", "C02,C03");
    obl!(fs.same_bits(&dst.0) && fs.same_bits(&src.0), "clone_from.small_target_is_bitwise_source", "C01,C08");
    obl!(fs.static_untouched(), "clone_from.small_static_source_untouched", "C10");
    obl!(fd.no_alloc_calls(), "clone_from.small_no_alloc", "C08");
    cov!(true, "clone_from.small_post_reachable");
    core::mem::forget(dst);
    core::mem::forget(src);
}

// ---------------------------------------------------------------------------------------
// delegation contracts
// ---------------------------------------------------------------------------------------

static mut D_CALLS: usize = 0;
static mut D_SELF: *const Repr = core::ptr::null();
static mut D_A0: usize = 0;
static mut D_SP: *const u8 = core::ptr::null();
static mut D_SN: usize = 0;
static mut D_BUF: [u8; 4] = [0; 4];
static mut D_ERR: bool = false;
static mut D_CH: u32 = 0;

fn rec(r: *const Repr, a0: usize, sp: *const u8, sn: usize) -> bool {
    unsafe {
        D_CALLS += 1;
        D_SELF = r;
        D_A0 = a0;
        D_SP = sp;
        D_SN = sn;
        let mut i = 0;
        while i < 4 {
            if i < sn {
                D_BUF[i] = *sp.add(i);
            }
            i += 1;
        }
        D_ERR = kani::any();
        D_ERR
    }
}
fn r_reserve(r: &mut Repr, n: usize) -> Result<(), ReserveError> {
    if rec(r, n, core::ptr::null(), 0) { Err(ReserveError) } else { Ok(()) }
}
fn r_shrink_to(r: &mut Repr, n: usize) -> Result<(), ReserveError> {
    if rec(r, n, core::ptr::null(), 0) { Err(ReserveError) } else { Ok(()) }
}
fn r_truncate(r: &mut Repr, n: usize) -> Result<(), ReserveError> {
    if rec(r, n, core::ptr::null(), 0) { Err(ReserveError) } else { Ok(()) }
}
fn r_push_str(r: &mut Repr, s: &str) -> Result<(), ReserveError> {
    if rec(r, 0, s.as_ptr(), s.len()) { Err(ReserveError) } else { Ok(()) }
}
fn r_insert_str(r: &mut Repr, idx: usize, s: &str) -> Result<(), ReserveError> {
    if rec(r, idx, s.as_ptr(), s.len()) { Err(ReserveError) } else { Ok(()) }
}
fn r_pop(r: &mut Repr) -> Result<Option<char>, ReserveError> {
    let e = rec(r, 0, core::ptr::null(), 0);
    let c: Option<char> = kani::any();
    unsafe { D_CH = match c { Some(c) => c as u32, None => u32::MAX } };
    if e { Err(ReserveError) } else { Ok(c) }
}
fn r_remove(r: &mut Repr, idx: usize) -> Result<char, ReserveError> {
    let e = rec(r, idx, core::ptr::null(), 0);
    let c: char = kani::any();
    unsafe { D_CH = c as u32 };
    if e { Err(ReserveError) } else { Ok(c) }
}
fn r_with_capacity(n: usize) -> Result<Repr, ReserveError> {
    if rec(core::ptr::null(), n, core::ptr::null(), 0) { Err(ReserveError) } else { Ok(Repr::new()) }
}

fn called_once_on(s: &LeanString) -> bool {
    unsafe { D_CALLS == 1 && D_SELF == &s.0 as *const Repr }
}

// @harness name=deleg_try_forms props=C01,C05,C06,C07,C09,C11,C12,C13 class=U tier=quick fn=LeanString::try_*
#[kani::proof]
#[kani::stub(Repr::reserve, r_reserve)]
#[kani::stub(Repr::shrink_to, r_shrink_to)]
#[kani::stub(Repr::truncate, r_truncate)]
#[kani::stub(Repr::push_str, r_push_str)]
#[kani::stub(Repr::insert_str, r_insert_str)]
#[kani::stub(Repr::pop, r_pop)]
#[kani::stub(Repr::remove, r_remove)]
#[kani::stub(Repr::with_capacity, r_with_capacity)]
fn deleg_try_forms() {
    let (mut s, _g) = ls(any_inline());
    let n: usize = kani::any();
    let which: u8 = kani::any();
    let text = "0123456789abcdefXYZ";
    let k: usize = kani::any();
    kani::assume(k <= text.len());
    let arg = &text[..k];
    let ch: char = kani::any();
    match which {
        0 => {
            let r = s.try_reserve(n);
            sobl!(called_once_on(&s) && unsafe { D_A0 } == n && r.is_err() == unsafe { D_ERR }, "deleg.try_reserve", "C01,C05,C06,C11,C12");
        }
        1 => {
            let r = s.try_shrink_to(n);
            sobl!(called_once_on(&s) && unsafe { D_A0 } == n && r.is_err() == unsafe { D_ERR }, "deleg.try_shrink_to", "C01,C05,C06,C13");
        }
        2 => {
            let r = s.try_shrink_to_fit();
            sobl!(called_once_on(&s) && unsafe { D_A0 } == 0 && r.is_err() == unsafe { D_ERR }, "deleg.try_shrink_to_fit_is_shrink_to_0", "C01,C13");
        }
        3 => {
            let r = s.try_truncate(n);
            sobl!(called_once_on(&s) && unsafe { D_A0 } == n && r.is_err() == unsafe { D_ERR }, "deleg.try_truncate", "C01,C07");
        }
        4 => {
            let r = s.try_push_str(arg);
            sobl!(
                called_once_on(&s) && unsafe { D_SP } == arg.as_ptr() && unsafe { D_SN } == k && r.is_err() == unsafe { D_ERR },
                "deleg.try_push_str",
                "C01,C05,C06,C09,C11,C12"
            );
        }
        5 => {
            let r = s.try_insert_str(n, arg);
            sobl!(
                called_once_on(&s) && unsafe { D_A0 } == n && unsafe { D_SP } == arg.as_ptr() && unsafe { D_SN } == k && r.is_err() == unsafe { D_ERR },
                "deleg.try_insert_str",
                "C01,C05,C06,C07,C09,C11,C12"
            );
        }
        6 => {
            let r = s.try_pop();
            let ok = match r {
                Err(_) => unsafe { D_ERR },
                Ok(None) => unsafe { !D_ERR && D_CH == u32::MAX },
                Ok(Some(c)) => unsafe { !D_ERR && D_CH == c as u32 },
            };
            sobl!(called_once_on(&s) && ok, "deleg.try_pop", "C01");
        }
        7 => {
            let r = s.try_remove(n);
            let ok = match r {
                Err(_) => unsafe { D_ERR },
                Ok(c) => unsafe { !D_ERR && D_CH == c as u32 },
            };
            sobl!(called_once_on(&s) && unsafe { D_A0 } == n && ok, "deleg.try_remove", "C01,C07");
        }
        8 => {
            let r = s.try_push(ch);
            let (e, w) = crate::repr::verif_mod::spec_encode(ch as u32);
            let mut same = unsafe { D_SN } == w;
            let mut i = 0;
            while i < 4 {
                if i < w && unsafe { D_BUF[i] } != e[i] {
                    same = false;
                }
                i += 1;
            }
            sobl!(called_once_on(&s) && same && r.is_err() == unsafe { D_ERR }, "deleg.try_push_is_push_str_of_utf8_encoding", "C01,C05,C09,C11,C12");
        }
        9 => {
            let r = s.try_insert(n, ch);
            let (e, w) = crate::repr::verif_mod::spec_encode(ch as u32);
            let mut same = unsafe { D_SN } == w && unsafe { D_A0 } == n;
            let mut i = 0;
            while i < 4 {
                if i < w && unsafe { D_BUF[i] } != e[i] {
                    same = false;
                }
                i += 1;
            }
            sobl!(called_once_on(&s) && same && r.is_err() == unsafe { D_ERR }, "deleg.try_insert_is_insert_str_of_utf8_encoding", "C01,C05,C07,C09,C11,C12");
        }
        _ => {
            let r = LeanString::try_with_capacity(n);
            sobl!(unsafe { D_CALLS == 1 && D_A0 == n } && r.is_err() == unsafe { D_ERR }, "deleg.try_with_capacity", "C01,C05,C06");
            if let Ok(x) = r {
                core::mem::forget(x);
            }
        }
    }
    core::mem::forget(s);
}

// plain forms: same call, and a panic exactly when the callee reports Err
// @harness name=deleg_plain_forms props=C01,C05,C06,C07,C09,C11,C12,C13 class=U tier=quick fn=LeanString::plain expect_fail="do_panic_with_msg"
#[kani::proof]
#[kani::stub(Repr::reserve, r_reserve)]
#[kani::stub(Repr::shrink_to, r_shrink_to)]
#[kani::stub(Repr::truncate, r_truncate)]
#[kani::stub(Repr::push_str, r_push_str)]
#[kani::stub(Repr::insert_str, r_insert_str)]
#[kani::stub(Repr::pop, r_pop)]
#[kani::stub(Repr::remove, r_remove)]
#[kani::stub(Repr::with_capacity, r_with_capacity)]
fn deleg_plain_forms() {
    let (mut s, _g) = ls(any_inline());
    let n: usize = kani::any();
    let which: u8 = kani::any();
    let text = "0123456789abcdefXYZ";
    let k: usize = kani::any();
    kani::assume(k <= text.len());
    let arg = &text[..k];
    let ch: char = kani::any();
    match which {
        0 => s.reserve(n),
        1 => s.shrink_to(n),
        2 => s.shrink_to_fit(),
        3 => s.truncate(n),
        4 => s.push_str(arg),
        5 => s.insert_str(n, arg),
        6 => {
            let c = s.pop();
            sobl!(
                match c { None => unsafe { D_CH == u32::MAX }, Some(c) => unsafe { D_CH == c as u32 } },
                "deleg.pop_returns_callee_value",
                "C01"
            );
        }
        7 => {
            let c = s.remove(n);
            sobl!(unsafe { D_CH == c as u32 && D_A0 == n }, "deleg.remove_returns_callee_value", "C01,C07");
        }
        8 => s.push(ch),
        9 => s.insert(n, ch),
        10 => {
            use core::fmt::Write;
            let r = s.write_str(arg);
            sobl!(r.is_ok() && unsafe { D_SP } == arg.as_ptr() && unsafe { D_SN } == k, "deleg.write_str_is_push_str", "C01,C15");
        }
        11 => {
            s += arg;
            sobl!(unsafe { D_SP } == arg.as_ptr() && unsafe { D_SN } == k, "deleg.add_assign_is_push_str", "C01");
        }
        12 => {
            let t = core::mem::replace(&mut s, LeanString::new());
            let t = t + arg;
            sobl!(unsafe { D_CALLS == 1 && D_SP == arg.as_ptr() && D_SN == k }, "deleg.add_is_push_str", "C01");
            core::mem::forget(t);
            core::mem::forget(s);
            sobl!(unsafe { !D_ERR }, "deleg.plain_form_panics_iff_callee_err", "C05,C06");
            return;
        }
        _ => {
            let x = LeanString::with_capacity(n);
            sobl!(unsafe { D_CALLS == 1 && D_A0 == n }, "deleg.with_capacity", "C01,C06");
            core::mem::forget(x);
            core::mem::forget(s);
            sobl!(unsafe { !D_ERR }, "deleg.plain_form_panics_iff_callee_err", "C05,C06");
            return;
        }
    }
    // reached only when the plain form returned: the callee must have reported Ok
    sobl!(unsafe { !D_ERR }, "deleg.plain_form_panics_iff_callee_err", "C05,C06");
    sobl!(called_once_on(&s), "deleg.plain_form_calls_callee_once", "C01,C09,C11,C12,C13");
    core::mem::forget(s);
}

// the read-only API is the Repr decoder of the same name
// @harness name=deleg_readers props=C01,C11,C17 class=U tier=quick fn=LeanString::len,is_empty,capacity,as_str,as_bytes,is_heap_allocated,Deref,AsRef,Borrow
#[kani::proof]
fn deleg_readers() {
    use core::borrow::Borrow;
    use core::ops::Deref;
    let (s, g) = ls(any_repr(REACH_CAP));
    let tp = text_ptr(&s.0, &g);
    sobl!(s.len() == g.len && s.is_empty() == (g.len == 0) && s.capacity() == g.cap, "deleg.len_is_empty_capacity", "C01,C11");
    sobl!(s.is_heap_allocated() == (g.kind == K_HEAP), "deleg.is_heap_allocated", "C09");
    sobl!(s.as_str().as_ptr() == tp && s.as_str().len() == g.len, "deleg.as_str", "C01,C17");
    sobl!(s.as_bytes().as_ptr() == tp && s.as_bytes().len() == g.len, "deleg.as_bytes", "C01,C17");
    let d: &str = s.deref();
    let a: &str = s.as_ref();
    let b: &str = s.borrow();
    let ab: &[u8] = s.as_ref();
    sobl!(
        d.as_ptr() == tp && d.len() == g.len && a.as_ptr() == tp && a.len() == g.len && b.as_ptr() == tp && b.len() == g.len && ab.as_ptr() == tp && ab.len() == g.len,
        "deleg.deref_asref_borrow_are_as_str",
        "C17"
    );
    core::mem::forget(s);
}

// ---------------------------------------------------------------------------------------
// unwrap_with_msg and the error type
// ---------------------------------------------------------------------------------------

// @harness name=unwrap_with_msg_contract props=C05,C06 class=U tier=quick fn=UnwrapWithMsg::unwrap_with_msg expect_fail="do_panic_with_msg"
#[kani::proof]
fn unwrap_with_msg_contract() {
    let ok: bool = kani::any();
    let v: u8 = kani::any();
    let r: Result<u8, ReserveError> = if ok { Ok(v) } else { Err(ReserveError) };
    let got = r.unwrap_with_msg();
    obl!(ok, "unwrap_with_msg.panics_iff_err", "C05,C06");
    obl!(got == v, "unwrap_with_msg.returns_ok_value", "C01");
}

// ---------------------------------------------------------------------------------------
// iterator-driven operations (class B: at most 3 items), callees under contract
// ---------------------------------------------------------------------------------------

struct It {
    items: [char; 3],
    n: usize,
    pos: usize,
    hint: usize,
}
impl Iterator for It {
    type Item = char;
    fn next(&mut self) -> Option<char> {
        if self.pos < self.n {
            self.pos += 1;
            Some(self.items[self.pos - 1])
        } else {
            None
        }
    }
    fn size_hint(&self) -> (usize, Option<usize>) {
        (self.hint, None)
    }
}

static mut E_RESERVE_CALLS: usize = 0;
static mut E_RESERVE_ARG: usize = 0;
static mut E_PUSHED: [u32; 3] = [0; 3];
static mut E_PUSH_CALLS: usize = 0;
static mut E_FIRST_PUSH_AFTER_RESERVE: bool = true;

fn e_reserve(_r: &mut Repr, n: usize) -> Result<(), ReserveError> {
    unsafe {
        E_RESERVE_CALLS += 1;
        E_RESERVE_ARG = n;
        if E_PUSH_CALLS > 0 {
            E_FIRST_PUSH_AFTER_RESERVE = false;
        }
    }
    // any result: the callers ignore it
    if kani::any() { Err(ReserveError) } else { Ok(()) }
}
fn e_with_capacity(n: usize) -> Result<Repr, ReserveError> {
    unsafe {
        E_RESERVE_CALLS += 1;
        E_RESERVE_ARG = n;
    }
    if kani::any() { Err(ReserveError) } else { Ok(Repr::new()) }
}
fn e_push_str(_r: &mut Repr, s: &str) -> Result<(), ReserveError> {
    unsafe {
        // decode the single scalar handed over (the callers encode one char)
        let p = s.as_ptr();
        let w = scalar_width_at(p, s.len(), 0);
        if E_PUSH_CALLS < 3 {
            E_PUSHED[E_PUSH_CALLS] = if w == s.len() && w > 0 { scalar_value_at(p, 0, w) } else { u32::MAX };
        }
        E_PUSH_CALLS += 1;
    }
    Ok(())
}

// @harness name=extend_chars props=C01,C05,C06 class=B bound="iterators of <= 3 chars, any size_hint" unwind=5 tier=quick fn=Extend<char>::extend,FromIterator<char>::from_iter
#[kani::proof]
#[kani::stub(Repr::reserve, e_reserve)]
#[kani::stub(Repr::with_capacity, e_with_capacity)]
#[kani::stub(Repr::push_str, e_push_str)]
fn extend_chars() {
    let n: usize = kani::any();
    kani::assume(n <= 3);
    let it = It { items: [kani::any(), kani::any(), kani::any()], n, pos: 0, hint: kani::any() };
    let items = it.items;
    let hint = it.hint;
    let collect: bool = kani::any();
    let s = if collect {
        let s: LeanString = it.collect();
        s
    } else {
        let (mut s, _g) = ls(any_inline());
        s.extend(it);
        s
    };
    sobl!(unsafe { E_RESERVE_CALLS == 1 && E_RESERVE_ARG == hint }, "extend.reserves_size_hint_lower_bound_once", "C06");
    sobl!(unsafe { E_FIRST_PUSH_AFTER_RESERVE }, "extend.reserve_comes_first", "C06");
    sobl!(unsafe { E_PUSH_CALLS } == n, "extend.pushes_every_item_once", "C01");
    let mut ok = true;
    let mut i = 0;
    while i < 3 {
        if i < n && unsafe { E_PUSHED[i] } != items[i] as u32 {
            ok = false;
        }
        i += 1;
    }
    sobl!(ok, "extend.pushes_items_in_order_utf8_encoded", "C01");
    core::mem::forget(s);
}
