// Injected as `src/verif_conv.rs` (child of the crate root, cfg(kani)).
//
// Contracts of the comparison / hashing / formatting impls (C17), the decoding constructors
// (C16), `to_lean_string` (C14 dispatch, C15) and the conversion constructors (C09).
// Everything that walks text byte by byte through `core` (memcmp, hashing, UTF-8 validation,
// core::fmt) is unwound, hence class B with the bound stated per harness.
#![allow(dead_code, unused_imports, unused_variables, static_mut_refs)]

use crate::repr::verif_repr::*;
use crate::repr::Repr;
use crate::*;
use alloc::borrow::Cow;
use alloc::string::String;
use core::cmp::Ordering;
use core::hash::{Hash, Hasher};

pub(crate) const TN: usize = 18;

/// any well-formed handle whose text has at most TN bytes: inline, static (object <= TN+2)
/// or heap of concrete capacity TN (shared or not, stale bytes behind the end)
fn any_small() -> (LeanString, Ghost) {
    let k: u8 = kani::any();
    small_of(k)
}
fn small_of(k: u8) -> (LeanString, Ghost) {
    let (r, g) = if k == 0 {
        any_inline()
    } else if k == 1 {
        any_static(TN + 2)
    } else {
        any_heap_fixed(TN)
    };
    kani::assume(g.len <= TN);
    (LeanString(r), g)
}

fn copy_text(s: &LeanString, g: &Ghost) -> [u8; TN] {
    let mut t = [0u8; TN];
    let mut i = 0;
    while i < TN {
        if i < g.len {
            t[i] = text_at(&s.0, g, i);
        }
        i += 1;
    }
    t
}

fn spec_cmp(a: &[u8; TN], al: usize, b: &[u8; TN], bl: usize) -> Ordering {
    let mut i = 0;
    while i < TN {
        if i < al && i < bl {
            if a[i] < b[i] {
                return Ordering::Less;
            }
            if a[i] > b[i] {
                return Ordering::Greater;
            }
        }
        i += 1;
    }
    if al < bl {
        Ordering::Less
    } else if al > bl {
        Ordering::Greater
    } else {
        Ordering::Equal
    }
}

struct RecHasher {
    buf: [u8; TN + 2],
    n: usize,
    overflow: bool,
}
impl Hasher for RecHasher {
    fn finish(&self) -> u64 {
        0
    }
    fn write(&mut self, bytes: &[u8]) {
        let mut i = 0;
        while i < bytes.len() {
            if self.n < TN + 2 {
                self.buf[self.n] = bytes[i];
                self.n += 1;
            } else {
                self.overflow = true;
            }
            i += 1;
        }
    }
}

fn cmp_pair_of(ka: u8) {
    arm_covers();
    let (a, ag) = small_of(ka);
    let (b, bg) = any_small();
    let ta = copy_text(&a, &ag);
    let tb = copy_text(&b, &bg);
    let want = spec_cmp(&ta, ag.len, &tb, bg.len);
    cov!(want == Ordering::Equal && ag.kind != bg.kind && ag.len > 3, "cmp.equal_texts_different_storage");
    obl!((a == b) == (want == Ordering::Equal), "cmp.eq_iff_same_text", "C17");
    obl!((a != b) == (want != Ordering::Equal), "cmp.ne_iff_different_text", "C17");
    obl!(a.cmp(&b) == want, "cmp.ord_is_bytewise_lexicographic", "C17");
    obl!(a.partial_cmp(&b) == Some(want), "cmp.partial_cmp_is_some_cmp", "C17");
    obl!((a < b) == (want == Ordering::Less), "cmp.lt", "C17");
    // the same against str / &str in both argument orders
    let sb: &str = b.as_str();
    obl!((a == *sb) == (want == Ordering::Equal) && (*sb == a) == (want == Ordering::Equal), "cmp.eq_str_both_orders", "C17");
    obl!((a == sb) == (want == Ordering::Equal) && (sb == a) == (want == Ordering::Equal), "cmp.eq_ref_str_both_orders", "C17");
    let cb: Cow<'_, str> = Cow::Borrowed(sb);
    obl!((a == cb) == (want == Ordering::Equal) && (cb == a) == (want == Ordering::Equal), "cmp.eq_cow_both_orders", "C17");
    cov!(true, "cmp.post_reachable");
    core::mem::forget(a);
    core::mem::forget(b);
}

// @harness name=cmp_pair_inline props=C17 class=B bound="first handle inline, second of any storage kind, texts <= 18 bytes (heap capacity 18, static object <= 20)" unwind=22 tier=quick fn=PartialEq,Eq,Ord,PartialOrd covers=cmp.post_reachable,cmp.equal_texts_different_storage timeout=1500
#[kani::proof]
fn cmp_pair_inline() {
    cmp_pair_of(0);
}

// @harness name=cmp_pair_static props=C17 class=B bound="first handle static, second of any storage kind, texts <= 18 bytes (heap capacity 18, static object <= 20)" unwind=22 tier=quick fn=PartialEq,Eq,Ord,PartialOrd covers=cmp.post_reachable timeout=1500
#[kani::proof]
fn cmp_pair_static() {
    cmp_pair_of(1);
}

// @harness name=cmp_pair_heap props=C17 class=B bound="first handle heap, second of any storage kind, texts <= 18 bytes (heap capacity 18, static object <= 20)" unwind=22 tier=quick fn=PartialEq,Eq,Ord,PartialOrd covers=cmp.post_reachable timeout=1500
#[kani::proof]
fn cmp_pair_heap() {
    cmp_pair_of(2);
}

// (An unbounded delegation harness - stubbing `<str as PartialEq>::eq` / `<str as Ord>::cmp` by
// recorders - is not possible: Kani's stub resolver takes `core::cmp::PartialEq` / `Ord` for the
// derive macros of the same name.)

// two handles that point at the SAME bytes with different lengths (a clone truncated while
// shared; two static strs starting at the same address): equal pointers must not mean equal
// @harness name=cmp_same_buffer props=C17 class=B bound="two handles on one heap block of capacity 18 / one static object <= 20, texts <= 18 bytes" unwind=22 tier=quick fn=PartialEq,Ord covers=cmp.same_buffer_different_len timeout=1500
#[kani::proof]
fn cmp_same_buffer() {
    arm_covers();
    let heap: bool = kani::any();
    let (ra, ag) = if heap { any_heap_fixed(TN) } else { any_static(TN + 2) };
    kani::assume(ag.len <= TN);
    let len2: usize = kani::any();
    kani::assume(len2 <= TN && len2 <= (if heap { ag.cap } else { ag.obj }));
    let rb: Repr = unsafe {
        core::mem::transmute(RawWords(
            if heap { ag.base.add(HDR) as *const u8 } else { ag.base as *const u8 },
            len2 | ((if heap { 0xD0usize } else { 0xD1usize }) << 56),
        ))
    };
    let bg = view(&rb);
    let a = LeanString(ra);
    let b = LeanString(rb);
    let ta = copy_text(&a, &ag);
    let tb = copy_text(&b, &bg);
    let want = spec_cmp(&ta, ag.len, &tb, bg.len);
    cov!(ag.len != bg.len && ag.len > 0 && bg.len > 0, "cmp.same_buffer_different_len");
    obl!((a == b) == (want == Ordering::Equal), "cmp.same_buffer_eq_iff_same_text", "C17");
    obl!(a.cmp(&b) == want, "cmp.same_buffer_ord_is_bytewise_lexicographic", "C17");
    core::mem::forget(a);
    core::mem::forget(b);
}

// @harness name=hash_one props=C17 class=B bound="one handle of any storage kind, text <= 18 bytes" unwind=22 tier=quick fn=Hash covers=hash.post_reachable
#[kani::proof]
fn hash_one() {
    arm_covers();
    let (a, ag) = any_small();
    let ta = copy_text(&a, &ag);
    let mut h = RecHasher { buf: [0; TN + 2], n: 0, overflow: false };
    a.hash(&mut h);
    // str's Hash: the bytes, then 0xff  (so the hash is a function of the text alone, and the
    // same as the hash of the str / String with that text)
    let mut ok = h.n == ag.len + 1 && !h.overflow;
    let mut i = 0;
    while i < TN {
        if i < ag.len && h.buf[i] != ta[i] {
            ok = false;
        }
        i += 1;
    }
    if ok && h.buf[ag.len] != 0xff {
        ok = false;
    }
    obl!(ok, "hash.feeds_text_bytes_then_0xff_like_str", "C17");
    let mut h2 = RecHasher { buf: [0; TN + 2], n: 0, overflow: false };
    a.as_str().hash(&mut h2);
    let mut same = h.n == h2.n;
    let mut i = 0;
    while i < TN + 2 {
        if i < h.n && h.buf[i] != h2.buf[i] {
            same = false;
        }
        i += 1;
    }
    obl!(same, "hash.same_as_str_hash", "C17");
    cov!(true, "hash.post_reachable");
    core::mem::forget(a);
}

// ---- unbounded (class U) contracts of Hash and Display: recorders that keep the POINTER and
// the length of what they are handed instead of copying bytes, so nothing walks the text and
// the length stays symbolic. Together with `view.as_str_is_the_text` (the slice is the text,
// all storage kinds, all lengths) they say: the hasher receives exactly the text's bytes, then
// 0xff - what `str` / `String` feed; the formatter's sink receives exactly the text, once.
struct PtrHasher {
    n: usize,
    p0: *const u8,
    l0: usize,
    l1: usize,
    b1: u8,
}
impl Hasher for PtrHasher {
    fn finish(&self) -> u64 {
        0
    }
    fn write(&mut self, bytes: &[u8]) {
        if self.n == 0 {
            self.p0 = bytes.as_ptr();
            self.l0 = bytes.len();
        } else if self.n == 1 {
            self.l1 = bytes.len();
            if bytes.len() == 1 {
                self.b1 = bytes[0];
            }
        }
        self.n += 1;
    }
}

fn hash_any_contract(pre: (Repr, Ghost)) {
    let (r, g) = pre;
    let f = Frame::snapshot(&r, &g);
    let want = text_ptr(&r, &g);
    let a = LeanString(r);
    let mut h = PtrHasher { n: 0, p0: core::ptr::null(), l0: 0, l1: 0, b1: 0 };
    a.hash(&mut h);
    obl!(h.n == 2, "hash.exactly_two_writes_like_str", "C17");
    obl!(h.p0 == text_ptr(&a.0, &g) && h.l0 == g.len, "hash.first_write_is_exactly_the_text_slice", "C17");
    obl!(h.l1 == 1 && h.b1 == 0xff, "hash.second_write_is_the_0xff_terminator", "C17");
    obl!(f.same_bits(&a.0) && f.no_alloc_calls(), "hash.read_only", "C17,C02");
    cov!(g.len > 16 && h.n == 2, "hash.any_len_reachable");
    let _ = want;
    core::mem::forget(a);
}

// @harness name=hash_any_heap props=C17 class=U tier=quick big=yes fn=Hash
#[kani::proof]
#[kani::stub(alloc::alloc::alloc, v_alloc)]
#[kani::stub(alloc::alloc::dealloc, v_dealloc)]
#[kani::stub(alloc::alloc::realloc, v_realloc)]
fn hash_any_heap() {
    hash_any_contract(any_heap(MAX_CAP));
}

// @harness name=hash_any_static props=C17 class=U tier=quick big=yes fn=Hash
#[kani::proof]
#[kani::stub(alloc::alloc::alloc, v_alloc)]
#[kani::stub(alloc::alloc::dealloc, v_dealloc)]
#[kani::stub(alloc::alloc::realloc, v_realloc)]
fn hash_any_static() {
    hash_any_contract(any_static(MAX_CAP));
}

// @harness name=hash_any_reach props=C17 class=U tier=quick fn=Hash covers=hash.any_len_reachable
#[kani::proof]
#[kani::stub(alloc::alloc::alloc, v_alloc)]
#[kani::stub(alloc::alloc::dealloc, v_dealloc)]
#[kani::stub(alloc::alloc::realloc, v_realloc)]
fn hash_any_reach() {
    arm_covers();
    hash_any_contract(any_repr(REACH_CAP));
}

struct PtrSink {
    base: *const u8,
    total: usize,
    in_order: bool,
}
impl core::fmt::Write for PtrSink {
    fn write_str(&mut self, s: &str) -> core::fmt::Result {
        // empty pieces print nothing; a non-empty piece must be the next slice of the text
        if s.len() != 0 {
            if s.as_ptr() != self.base.wrapping_add(self.total) {
                self.in_order = false;
            }
            self.total = self.total.wrapping_add(s.len());
        }
        Ok(())
    }
}

fn display_any_contract(pre: (Repr, Ghost)) {
    use core::fmt::Write;
    let (r, g) = pre;
    let f = Frame::snapshot(&r, &g);
    let a = LeanString(r);
    let mut s = PtrSink { base: text_ptr(&a.0, &g), total: 0, in_order: true };
    let res = write!(s, "{}", a);
    obl!(res.is_ok(), "display.ok_when_the_sink_is_ok", "C17");
    // structural: the pieces handed to the sink are slices of the text itself, in order (a
    // formatter that copies the text first would need the bounded `display_one` instead)
    sobl!(s.in_order, "display.pieces_are_consecutive_slices_of_the_text", "C17");
    obl!(!s.in_order || s.total == g.len, "display.prints_the_whole_text_and_nothing_else", "C17");
    obl!(f.same_bits(&a.0) && f.no_alloc_calls(), "display.read_only", "C17,C02");
    cov!(g.len > 16 && s.total == g.len, "display.any_len_reachable");
    core::mem::forget(a);
}

// @harness name=display_any_heap props=C17 class=U tier=quick big=yes fn=Display
#[kani::proof]
#[kani::stub(alloc::alloc::alloc, v_alloc)]
#[kani::stub(alloc::alloc::dealloc, v_dealloc)]
#[kani::stub(alloc::alloc::realloc, v_realloc)]
fn display_any_heap() {
    display_any_contract(any_heap(MAX_CAP));
}

// @harness name=display_any_static props=C17 class=U tier=quick big=yes fn=Display
#[kani::proof]
#[kani::stub(alloc::alloc::alloc, v_alloc)]
#[kani::stub(alloc::alloc::dealloc, v_dealloc)]
#[kani::stub(alloc::alloc::realloc, v_realloc)]
fn display_any_static() {
    display_any_contract(any_static(MAX_CAP));
}

// @harness name=display_any_reach props=C17 class=U tier=quick fn=Display covers=display.any_len_reachable
#[kani::proof]
#[kani::stub(alloc::alloc::alloc, v_alloc)]
#[kani::stub(alloc::alloc::dealloc, v_dealloc)]
#[kani::stub(alloc::alloc::realloc, v_realloc)]
fn display_any_reach() {
    arm_covers();
    display_any_contract(any_repr(REACH_CAP));
}

/// sink that records what the formatting machinery hands over
struct Sink {
    buf: [u8; 24],
    n: usize,
    calls: usize,
}
impl core::fmt::Write for Sink {
    fn write_str(&mut self, s: &str) -> core::fmt::Result {
        self.calls += 1;
        let b = s.as_bytes();
        let mut i = 0;
        while i < b.len() {
            if self.n < 24 {
                self.buf[self.n] = b[i];
                self.n += 1;
            }
            i += 1;
        }
        Ok(())
    }
}

// @harness name=display_one props=C17 class=B bound="text <= 6 bytes through core::fmt::write" unwind=22 tier=quick fn=Display covers=display.post_reachable timeout=1500
#[kani::proof]
fn display_one() {
    use core::fmt::Write;
    arm_covers();
    let (a, ag) = any_small();
    kani::assume(ag.len <= 6);
    let ta = copy_text(&a, &ag);
    let mut s = Sink { buf: [0; 24], n: 0, calls: 0 };
    let r = write!(s, "{}", a);
    let mut ok = r.is_ok() && s.n == ag.len;
    let mut i = 0;
    while i < 6 {
        if i < ag.len && s.buf[i] != ta[i] {
            ok = false;
        }
        i += 1;
    }
    obl!(ok, "display.prints_exactly_the_text", "C17");
    cov!(true, "display.post_reachable");
    core::mem::forget(a);
}

// ---------------------------------------------------------------------------------------
// conversion constructors: From<&str>/<String>/<&String>/<Box<str>>/<Cow>, FromStr (C09)
// ---------------------------------------------------------------------------------------

// @harness name=from_conversions props=C09,C01 class=B bound="source text <= 20 bytes" unwind=24 tier=quick fn=From<&str>,From<String>,From<&String>,From<Box<str>>,From<Cow<str>>,FromStr covers=conv.inline,conv.heap timeout=1500
#[kani::proof]
#[kani::stub(crate::repr::Repr::from_str, rec_from_str)]
fn from_conversions() {
    arm_covers();
    let text = "0123456789abcdefghij";
    let k: usize = kani::any();
    kani::assume(k <= text.len());
    let src = &text[..k];
    let which: u8 = kani::any();
    let out: LeanString = match which {
        0 => LeanString::from(src),
        1 => LeanString::from(String::from(src)),
        2 => LeanString::from(&String::from(src)),
        3 => LeanString::from(alloc::boxed::Box::<str>::from(src)),
        4 => LeanString::from(Cow::Borrowed(src)),
        5 => LeanString::from(Cow::<str>::Owned(String::from(src))),
        _ => <LeanString as core::str::FromStr>::from_str(src).unwrap(),
    };
    cov!(k <= 16, "conv.inline");
    cov!(k > 16, "conv.heap");
    // every conversion is exactly one Repr::from_str (whose contract says: no allocation
    // for <= 16 bytes, otherwise one allocation of capacity == len) of the same text
    sobl!(unsafe { F_CALLS } == 1 && unsafe { F_LEN } == k, "conv.is_one_from_str_of_the_source_text", "C09,C01");
    let mut same = true;
    let mut i = 0;
    while i < 20 {
        if i < k && unsafe { F_BYTES[i] } != text.as_bytes()[i] {
            same = false;
        }
        i += 1;
    }
    sobl!(same, "conv.passes_the_source_bytes", "C09,C01");
    core::mem::forget(out);
}
// The SEMANTIC side of the conversions (the obligations above are structural): the real
// conversion with nothing stubbed but the allocator entry point, which only COUNTS the
// word-aligned requests (the crate's heap blocks; `String` / `Box<str>` ask for align 1). Owned
// sources carry symbolic spare capacity - the result may depend on the text alone.
unsafe extern "Rust" {
    fn __rust_alloc(size: usize, align: usize) -> *mut u8;
}
static mut W_ALLOCS: usize = 0;
static mut W_LAST: usize = 0;
unsafe fn count_word_alloc(layout: core::alloc::Layout) -> *mut u8 {
    unsafe {
        if layout.align() == 8 {
            W_ALLOCS += 1;
            W_LAST = layout.size();
        }
        let p = __rust_alloc(layout.size(), layout.align());
        kani::assume(!p.is_null());
        p
    }
}

fn conversions_e2e(owned_sources: bool) {
    arm_covers();
    let k: usize = kani::any();
    kani::assume(k <= 20);
    let sp: u8 = kani::any();
    let spare: usize = if !owned_sources || sp == 0 { 0 } else if sp == 1 { 7 } else { 24 };
    conversion_case(owned_sources, k, spare);
}

fn conversion_case(owned_sources: bool, k: usize, spare: usize) {
    let text = "0123456789abcdefghij";
    let src = &text[..k];
    let which: u8 = kani::any();
    let mut st = String::with_capacity(k + spare);
    st.push_str(src);
    let before = unsafe { W_ALLOCS };
    let out: LeanString = if owned_sources {
        if which == 0 { LeanString::from(st) } else { LeanString::from(Cow::<str>::Owned(st)) }
    } else {
        match which {
            0 => LeanString::from(src),
            1 => LeanString::from(&st),
            2 => LeanString::from(alloc::boxed::Box::<str>::from(src)),
            3 => LeanString::from(Cow::Borrowed(src)),
            _ => <LeanString as core::str::FromStr>::from_str(src).unwrap(),
        }
    };
    let n = unsafe { W_ALLOCS } - before;
    cov!(k <= 16 && k > 0, "conv.e2e_inline");
    cov!(k > 16, "conv.e2e_heap");
    cov!(spare > 16 || !owned_sources, "conv.e2e_spare");
    obl!(text_is(&out, src.as_bytes()), "conv.result_text_is_the_source_text", "C01,C09");
    if k <= 16 {
        obl!(!out.is_heap_allocated() && n == 0, "conv.le_16_bytes_stay_inline_without_allocation", "C09");
        obl!(out.capacity() == 16, "conv.le_16_bytes_capacity_16", "C09");
    } else {
        obl!(out.is_heap_allocated() && n == 1 && unsafe { W_LAST } == 16 + k, "conv.gt_16_bytes_exactly_one_exact_allocation", "C09");
        obl!(out.capacity() == k, "conv.gt_16_bytes_capacity_is_len", "C09");
    }
    core::mem::forget(out);
}

// @harness name=from_conversions_e2e props=C09 class=B bound="borrowed sources (&str, &String, Box<str>, Cow::Borrowed, FromStr), text <= 20 bytes" unwind=24 tier=quick fn=From<&str>,From<&String>,From<Box<str>>,From<Cow<str>>,FromStr covers=conv.e2e_inline,conv.e2e_heap timeout=1500
#[kani::proof]
#[kani::stub(alloc::alloc::alloc, count_word_alloc)]
fn from_conversions_e2e() {
    conversions_e2e(false);
}

// @harness name=from_owned_e2e props=C09 class=B bound="owned sources (String, Cow::Owned), text <= 20 bytes, spare capacity 0 / 7 / 24" unwind=24 tier=quick fn=From<String>,From<Cow<str>> covers=conv.e2e_inline,conv.e2e_heap,conv.e2e_spare timeout=1500
#[kani::proof]
#[kani::stub(alloc::alloc::alloc, count_word_alloc)]
fn from_owned_e2e() {
    conversions_e2e(true);
}

// the same contract on CONCRETE (length, spare capacity) pairs around the 16-byte limit: cheap
// enough to stay decidable when a conversion goes through `with_capacity` + `push_str`
// @harness name=from_owned_cases props=C09 class=B bound="owned sources (String, Cow::Owned); (len, spare) in {(0,24),(5,24),(12,7),(16,0),(16,24),(17,7),(20,0),(20,24)}" unwind=24 tier=quick fn=From<String>,From<Cow<str>> covers=conv.e2e_inline,conv.e2e_heap,conv.e2e_spare timeout=1500
#[kani::proof]
#[kani::stub(alloc::alloc::alloc, count_word_alloc)]
fn from_owned_cases() {
    arm_covers();
    let sel: u8 = kani::any();
    match sel {
        0 => conversion_case(true, 0, 24),
        1 => conversion_case(true, 5, 24),
        2 => conversion_case(true, 12, 7),
        3 => conversion_case(true, 16, 0),
        4 => conversion_case(true, 16, 24),
        5 => conversion_case(true, 17, 7),
        6 => conversion_case(true, 20, 0),
        _ => conversion_case(true, 20, 24),
    }
}

static mut F_CALLS: usize = 0;
static mut F_LEN: usize = 0;
static mut F_BYTES: [u8; 20] = [0; 20];
fn rec_from_str(text: &str) -> Result<Repr, ReserveError> {
    unsafe {
        F_CALLS += 1;
        F_LEN = text.len();
        let b = text.as_bytes();
        let mut i = 0;
        while i < 20 {
            if i < b.len() {
                F_BYTES[i] = b[i];
            }
            i += 1;
        }
    }
    Ok(Repr::new())
}

// ---------------------------------------------------------------------------------------
// to_lean_string: type dispatch (concrete values - the arm taken depends on the type only)
// ---------------------------------------------------------------------------------------

fn text_is(s: &LeanString, want: &[u8]) -> bool {
    let b = s.as_bytes();
    if b.len() != want.len() {
        return false;
    }
    let mut i = 0;
    let mut ok = true;
    while i < want.len() {
        if b[i] != want[i] {
            ok = false;
        }
        i += 1;
    }
    ok
}

macro_rules! dispatch_harness {
    ($name:ident, $val:expr, $want:expr) => {
        dispatch_harness!($name, $val, $want, true);
    };
    ($name:ident, $val:expr, $want:expr, $inline:expr) => {
        #[kani::proof]
        #[kani::unwind(24)]
        fn $name() {
            let v = $val;
            let s = v.try_to_lean_string();
            obl!(s.is_ok(), "dispatch.ok", "C14,C15");
            if let Ok(s) = s {
                obl!(text_is(&s, $want), "dispatch.text_equals_display_text", "C14,C15");
                obl!(s.is_heap_allocated() != $inline, "dispatch.inline_iff_text_le_16_bytes", "C09");
                core::mem::forget(s);
            }
        }
    };
}
// @harness name=dispatch_u8 props=C14,C09 class=B bound="one concrete value per type (arm selection depends on the type only)" tier=quick fn=ToLeanString
dispatch_harness!(dispatch_u8, 207u8, b"207");
// @harness name=dispatch_i8 props=C14,C09 class=B bound="one concrete value per type" tier=quick fn=ToLeanString
dispatch_harness!(dispatch_i8, -128i8, b"-128");
// @harness name=dispatch_u16 props=C14,C09 class=B bound="one concrete value per type" tier=quick fn=ToLeanString
dispatch_harness!(dispatch_u16, 65535u16, b"65535");
// @harness name=dispatch_i16 props=C14,C09 class=B bound="one concrete value per type" tier=quick fn=ToLeanString
dispatch_harness!(dispatch_i16, -32768i16, b"-32768");
// @harness name=dispatch_u32 props=C14,C09 class=B bound="one concrete value per type" tier=quick fn=ToLeanString
dispatch_harness!(dispatch_u32, 4294967295u32, b"4294967295");
// @harness name=dispatch_i32 props=C14,C09 class=B bound="one concrete value per type" tier=quick fn=ToLeanString
dispatch_harness!(dispatch_i32, -2147483648i32, b"-2147483648");
// @harness name=dispatch_u64 props=C14,C09 class=B bound="one concrete value per type" tier=quick fn=ToLeanString
dispatch_harness!(dispatch_u64, 1234567890123456u64, b"1234567890123456");
// @harness name=dispatch_i64 props=C14,C09 class=B bound="one concrete value per type" tier=quick fn=ToLeanString
dispatch_harness!(dispatch_i64, -123456789012345i64, b"-123456789012345");
// @harness name=dispatch_usize props=C14,C09 class=B bound="one concrete value per type" tier=quick fn=ToLeanString
dispatch_harness!(dispatch_usize, 1000000usize, b"1000000");
// @harness name=dispatch_isize props=C14,C09 class=B bound="one concrete value per type" tier=quick fn=ToLeanString
dispatch_harness!(dispatch_isize, -1isize, b"-1");
// @harness name=dispatch_nonzero_i64 props=C14,C09 class=B bound="one concrete value per type" tier=quick fn=ToLeanString
dispatch_harness!(dispatch_nonzero_i64, core::num::NonZero::<i64>::new(-9).unwrap(), b"-9");

// boundary values (the extremes of the 64-bit types: 19-20 byte texts, on the heap)
// @harness name=dispatch_i64_min props=C14,C09 class=B bound="one concrete value: i64::MIN" tier=quick fn=ToLeanString
dispatch_harness!(dispatch_i64_min, i64::MIN, b"-9223372036854775808", false);
// @harness name=dispatch_i64_max props=C14,C09 class=B bound="one concrete value: i64::MAX" tier=quick fn=ToLeanString
dispatch_harness!(dispatch_i64_max, i64::MAX, b"9223372036854775807", false);
// @harness name=dispatch_u64_max props=C14,C09 class=B bound="one concrete value: u64::MAX" tier=quick fn=ToLeanString
dispatch_harness!(dispatch_u64_max, u64::MAX, b"18446744073709551615", false);
// @harness name=dispatch_isize_min props=C14,C09 class=B bound="one concrete value: isize::MIN" tier=quick fn=ToLeanString
dispatch_harness!(dispatch_isize_min, isize::MIN, b"-9223372036854775808", false);
// @harness name=dispatch_i64_17 props=C14,C09 class=B bound="one concrete value: 17-byte text" tier=quick fn=ToLeanString
dispatch_harness!(dispatch_i64_17, -1000000000000000i64, b"-1000000000000000", false);

// NOTE (measured): symbolic execution through castaway::match_type! is only feasible for the
// early arms: the integer arms above take 20-70 s each, while the bool / char / NonZero<u32> arms
// and the generic Display fallback (every one of the 30 casts fails first) exhaust 40 GB. Those
// arms are therefore not run; what they call (Repr::from_bool / from_char / from_str /
// LeanString::clone / fmt::Write::write_str) is under contract, and that the arm is selected by
// the static type alone is assumed (castaway is a dependency).

// ---------------------------------------------------------------------------------------
// from_utf8 (parametric in the validator) and the lossy / UTF-16 decoders (bounded)
// ---------------------------------------------------------------------------------------

static mut U_VALIDATOR_SAYS_OK: bool = false;
static mut U_CALLS: usize = 0;
fn stub_from_utf8(v: &[u8]) -> Result<&str, core::str::Utf8Error> {
    unsafe { U_CALLS += 1 };
    if unsafe { U_VALIDATOR_SAYS_OK } {
        Ok(unsafe { core::str::from_utf8_unchecked(v) })
    } else {
        // some genuine Utf8Error value (from_utf8_mut does not go through the stubbed function):
        // either "invalid byte" (error_len == Some(1)) or "input ends inside a sequence"
        // (error_len == None), both with valid_up_to == 0
        // (two calls on CONCRETE inputs: the real validator on a symbolic byte does not terminate)
        let mut bad1 = [0xFFu8];
        let mut bad2 = [0xC3u8];
        let e1 = core::str::from_utf8_mut(&mut bad1);
        let e2 = core::str::from_utf8_mut(&mut bad2);
        match (e1, e2) {
            (Err(a), Err(b)) => Err(if kani::any() { a } else { b }),
            _ => loop {},
        }
    }
}

// @harness name=from_utf8_parametric props=C16 class=U tier=quick fn=LeanString::from_utf8 covers=from_utf8.ok,from_utf8.err
#[kani::proof]
#[kani::stub(alloc::alloc::alloc, v_alloc)]
#[kani::stub(alloc::alloc::dealloc, v_dealloc)]
#[kani::stub(alloc::alloc::realloc, v_realloc)]
#[kani::stub(core::str::from_utf8, stub_from_utf8)]
fn from_utf8_parametric() {
    arm_covers();
    let (s, p, n) = crate::repr::verif_mod::any_str(REACH_CAP);
    let pr = crate::repr::verif_mod::probe_arg(p, n);
    unsafe { U_VALIDATOR_SAYS_OK = kani::any() };
    let r = LeanString::from_utf8(s.as_bytes());
    obl!(unsafe { U_CALLS } == 1, "from_utf8.asks_the_core_validator_once", "C16");
    match r {
        Ok(ls) => {
            cov!(true, "from_utf8.ok");
            obl!(unsafe { U_VALIDATOR_SAYS_OK }, "from_utf8.accepts_only_what_the_validator_accepts", "C16");
            let g = view(&ls.0);
            obl!(g.len == n && (n == 0 || text_at(&ls.0, &g, pr.i) == pr.b), "from_utf8.text_is_the_input", "C16");
            core::mem::forget(ls);
        }
        Err(_) => {
            cov!(true, "from_utf8.err");
            obl!(!unsafe { U_VALIDATOR_SAYS_OK }, "from_utf8.rejects_only_what_the_validator_rejects", "C16");
        }
    }
}

// The lossy / UTF-16 decoders against specifications written from the definitions (running
// String's decoders next to them in one harness exhausts 40 GB, see DESIGN 2).

// The decoders' loops are checked against the CONTRACTS of what they call: `Repr::push_str`
// (text' = text ++ s, proved in verif_edit.rs / verif_e2e.rs), `Repr::from_str` and
// `Repr::with_capacity` are replaced by stubs that keep the abstract text in a ghost buffer.
static mut G_BUF: [u8; 24] = [0; 24];
static mut G_LEN: usize = 0;
fn g_append(s: &str) {
    let b = s.as_bytes();
    let mut i = 0;
    while i < b.len() {
        unsafe {
            if G_LEN < 24 {
                G_BUF[G_LEN] = b[i];
            }
            G_LEN += 1;
        }
        i += 1;
    }
}
fn g_push_str(_r: &mut Repr, s: &str) -> Result<(), ReserveError> {
    g_append(s);
    Ok(())
}
fn g_from_str(s: &str) -> Result<Repr, ReserveError> {
    unsafe { G_LEN = 0 };
    g_append(s);
    Ok(Repr::new())
}
fn g_with_capacity(_n: usize) -> Result<Repr, ReserveError> {
    Ok(Repr::new())
}
fn ghost_is(want: &[u8]) -> bool {
    if unsafe { G_LEN } != want.len() {
        return false;
    }
    let mut ok = true;
    let mut i = 0;
    while i < want.len() {
        if unsafe { G_BUF[i] } != want[i] {
            ok = false;
        }
        i += 1;
    }
    ok
}

/// UTF-16 decoding from the definition: a high surrogate followed by a low surrogate is one
/// supplementary scalar; any other surrogate is an error (lossy: U+FFFD)
fn spec_utf16(buf: &[u16], n: usize, out: &mut [u8; 16]) -> (usize, bool) {
    let mut len = 0;
    let mut bad = false;
    let mut i = 0;
    let mut k = 0;
    while k < 4 {
        if i < n {
            let u = buf[i] as u32;
            let c: u32;
            if u < 0xD800 || u > 0xDFFF {
                c = u;
                i += 1;
            } else if u <= 0xDBFF && i + 1 < n && (buf[i + 1] as u32) >= 0xDC00 && (buf[i + 1] as u32) <= 0xDFFF {
                c = 0x10000 + ((u - 0xD800) << 10) + ((buf[i + 1] as u32) - 0xDC00);
                i += 2;
            } else {
                c = 0xFFFD;
                bad = true;
                i += 1;
            }
            let (e, w) = crate::repr::verif_mod::spec_encode(c);
            let mut j = 0;
            while j < 4 {
                if j < w {
                    out[len + j] = e[j];
                }
                j += 1;
            }
            len += w;
        }
        k += 1;
    }
    (len, bad)
}

// @harness name=from_utf16_spec props=C16 class=B bound="all u16 strings of length <= 3, against UTF-16 decoding written from the definition; push_str/from_str/with_capacity under contract (ghost text)" unwind=18 tier=quick fn=LeanString::from_utf16,LeanString::from_utf16_lossy timeout=900 mem=24 covers=utf16.pair,utf16.lone
#[kani::proof]
#[kani::stub(crate::repr::Repr::push_str, g_push_str)]
#[kani::stub(crate::repr::Repr::from_str, g_from_str)]
#[kani::stub(crate::repr::Repr::with_capacity, g_with_capacity)]
fn from_utf16_spec() {
    arm_covers();
    let buf: [u16; 3] = kani::any();
    let n: usize = kani::any();
    kani::assume(n <= 3);
    let mut want = [0u8; 16];
    let (wlen, bad) = spec_utf16(&buf, n, &mut want);
    cov!(!bad && wlen == 4, "utf16.pair");
    cov!(bad, "utf16.lone");
    let strict = LeanString::from_utf16(&buf[..n]);
    obl!(strict.is_err() == bad, "from_utf16.rejects_exactly_ill_formed_input", "C16");
    if strict.is_ok() {
        obl!(ghost_is(&want[..wlen]), "from_utf16.text_is_the_decoded_scalars", "C16");
    }
    unsafe { G_LEN = 0 };
    let lossy = LeanString::from_utf16_lossy(&buf[..n]);
    obl!(ghost_is(&want[..wlen]), "from_utf16_lossy.text_with_replacement_characters", "C16");
    core::mem::forget(strict);
    core::mem::forget(lossy);
}

/// UTF-8 lossy decoding from the definition (Unicode "substitution of maximal subparts",
/// which is what String::from_utf8_lossy documents): at each position either a well-formed
/// sequence (Table 3-7) is copied, or the longest prefix of one (at least one byte) is replaced
/// by U+FFFD
fn spec_utf8_lossy(buf: &[u8], n: usize, out: &mut [u8; 16]) -> usize {
    let mut len = 0;
    let mut i = 0;
    let mut k = 0;
    while k < 4 {
        if i < n {
            let b0 = buf[i];
            // (needed continuation count, allowed range of the second byte)
            let (need, lo, hi): (usize, u8, u8) = if b0 < 0x80 { (0, 0, 0) }
                else if b0 >= 0xC2 && b0 <= 0xDF { (1, 0x80, 0xBF) }
                else if b0 == 0xE0 { (2, 0xA0, 0xBF) }
                else if b0 == 0xED { (2, 0x80, 0x9F) }
                else if b0 >= 0xE1 && b0 <= 0xEF { (2, 0x80, 0xBF) }
                else if b0 == 0xF0 { (3, 0x90, 0xBF) }
                else if b0 == 0xF4 { (3, 0x80, 0x8F) }
                else if b0 >= 0xF1 && b0 <= 0xF3 { (3, 0x80, 0xBF) }
                else { (9, 0, 0) };
            let mut got = 0;
            if need != 9 {
                let mut j = 1;
                while j < 4 {
                    if j <= need && got + 1 == j && i + j < n {
                        let b = buf[i + j];
                        let ok = if j == 1 { b >= lo && b <= hi } else { b >= 0x80 && b <= 0xBF };
                        if ok {
                            got = j;
                        }
                    }
                    j += 1;
                }
            }
            if need != 9 && got == need {
                let mut j = 0;
                while j < 4 {
                    if j <= need {
                        out[len + j] = buf[i + j];
                    }
                    j += 1;
                }
                len += need + 1;
                i += need + 1;
            } else {
                out[len] = 0xEF;
                out[len + 1] = 0xBF;
                out[len + 2] = 0xBD;
                len += 3;
                i += 1 + got;
            }
        }
        k += 1;
    }
    len
}

// @harness name=from_utf8_lossy_spec props=C16 class=B bound="all byte strings of length <= 3, against lossy decoding written from the definition; push_str/from_str/with_capacity under contract (ghost text)" unwind=11 tier=quick fn=LeanString::from_utf8_lossy timeout=900 mem=24 covers=lossy.replaced,lossy.multibyte_kept
#[kani::proof]
#[kani::stub(crate::repr::Repr::push_str, g_push_str)]
#[kani::stub(crate::repr::Repr::from_str, g_from_str)]
#[kani::stub(crate::repr::Repr::with_capacity, g_with_capacity)]
fn from_utf8_lossy_spec() {
    arm_covers();
    let buf: [u8; 3] = kani::any();
    let n: usize = kani::any();
    kani::assume(n <= 3);
    let mut want = [0u8; 16];
    let wlen = spec_utf8_lossy(&buf, n, &mut want);
    let got = LeanString::from_utf8_lossy(&buf[..n]);
    cov!(wlen > n, "lossy.replaced");
    cov!(wlen == n && n == 3 && buf[0] >= 0xE0, "lossy.multibyte_kept");
    obl!(ghost_is(&want[..wlen]), "from_utf8_lossy.text_with_replacement_characters", "C16");
    core::mem::forget(got);
}
