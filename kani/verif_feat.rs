// Injected as `src/verif_feat.rs` (child of the crate root), compiled only with
// `--features serde,arbitrary` under cfg(kani).
//
// C19: the serde and arbitrary integrations are transparent string wrappers.
//   * Serialize: exactly one `serialize_str` of exactly `as_str()` - what `str`/`String` do;
//   * Deserialize: `deserialize_string` is requested; each of the four visitor methods yields
//     the input text, or (bytes that the core validator rejects) an `invalid_value` error;
//   * Arbitrary: `<&str>::arbitrary` then `LeanString::from` (delegation).
#![cfg(all(feature = "serde", feature = "arbitrary"))]
#![allow(dead_code, unused_imports, unused_variables, static_mut_refs)]

use crate::repr::verif_repr::*;
use crate::repr::Repr;
use crate::*;

const SN: usize = 18;

fn any_small() -> (LeanString, Ghost) {
    let k: u8 = kani::any();
    let (r, g) = if k == 0 {
        any_inline()
    } else if k == 1 {
        any_static(SN + 2)
    } else {
        any_heap_fixed(SN)
    };
    kani::assume(g.len <= SN);
    (LeanString(r), g)
}

// ---------------------------------------------------------------------------------------
// Serialize
// ---------------------------------------------------------------------------------------

static mut S_STR_CALLS: usize = 0;
static mut S_OTHER_CALLS: usize = 0;
static mut S_PTR: *const u8 = core::ptr::null();
static mut S_LEN: usize = 0;

#[derive(Debug)]
struct SErr;
impl core::fmt::Display for SErr {
    fn fmt(&self, _f: &mut core::fmt::Formatter<'_>) -> core::fmt::Result {
        Ok(())
    }
}
impl core::error::Error for SErr {}
impl serde::ser::Error for SErr {
    fn custom<T: core::fmt::Display>(_msg: T) -> Self {
        SErr
    }
}
impl serde::de::Error for SErr {
    fn custom<T: core::fmt::Display>(_msg: T) -> Self {
        unsafe { D_CUSTOM_ERRORS += 1 };
        SErr
    }
}

struct Rec;
macro_rules! other {
    ($($name:ident($($t:ty),*);)*) => { $(
        fn $name(self $(, _v: $t)*) -> Result<(), SErr> { unsafe { S_OTHER_CALLS += 1 }; Ok(()) }
    )* };
}
impl serde::Serializer for Rec {
    type Ok = ();
    type Error = SErr;
    type SerializeSeq = serde::ser::Impossible<(), SErr>;
    type SerializeTuple = serde::ser::Impossible<(), SErr>;
    type SerializeTupleStruct = serde::ser::Impossible<(), SErr>;
    type SerializeTupleVariant = serde::ser::Impossible<(), SErr>;
    type SerializeMap = serde::ser::Impossible<(), SErr>;
    type SerializeStruct = serde::ser::Impossible<(), SErr>;
    type SerializeStructVariant = serde::ser::Impossible<(), SErr>;
    fn serialize_str(self, v: &str) -> Result<(), SErr> {
        unsafe {
            S_STR_CALLS += 1;
            S_PTR = v.as_ptr();
            S_LEN = v.len();
        }
        Ok(())
    }
    other! {
        serialize_bool(bool); serialize_i8(i8); serialize_i16(i16); serialize_i32(i32); serialize_i64(i64);
        serialize_u8(u8); serialize_u16(u16); serialize_u32(u32); serialize_u64(u64); serialize_f32(f32); serialize_f64(f64);
        serialize_char(char); serialize_bytes(&[u8]); serialize_none(); serialize_unit(); serialize_unit_struct(&'static str);
    }
    fn serialize_unit_variant(self, _n: &'static str, _i: u32, _v: &'static str) -> Result<(), SErr> { unsafe { S_OTHER_CALLS += 1 }; Ok(()) }
    fn serialize_some<T: ?Sized + serde::Serialize>(self, _v: &T) -> Result<(), SErr> { unsafe { S_OTHER_CALLS += 1 }; Ok(()) }
    fn serialize_newtype_struct<T: ?Sized + serde::Serialize>(self, _n: &'static str, _v: &T) -> Result<(), SErr> { unsafe { S_OTHER_CALLS += 1 }; Ok(()) }
    fn serialize_newtype_variant<T: ?Sized + serde::Serialize>(self, _n: &'static str, _i: u32, _v: &'static str, _x: &T) -> Result<(), SErr> { unsafe { S_OTHER_CALLS += 1 }; Ok(()) }
    fn serialize_seq(self, _l: Option<usize>) -> Result<Self::SerializeSeq, SErr> { unsafe { S_OTHER_CALLS += 1 }; Err(SErr) }
    fn serialize_tuple(self, _l: usize) -> Result<Self::SerializeTuple, SErr> { unsafe { S_OTHER_CALLS += 1 }; Err(SErr) }
    fn serialize_tuple_struct(self, _n: &'static str, _l: usize) -> Result<Self::SerializeTupleStruct, SErr> { unsafe { S_OTHER_CALLS += 1 }; Err(SErr) }
    fn serialize_tuple_variant(self, _n: &'static str, _i: u32, _v: &'static str, _l: usize) -> Result<Self::SerializeTupleVariant, SErr> { unsafe { S_OTHER_CALLS += 1 }; Err(SErr) }
    fn serialize_map(self, _l: Option<usize>) -> Result<Self::SerializeMap, SErr> { unsafe { S_OTHER_CALLS += 1 }; Err(SErr) }
    fn serialize_struct(self, _n: &'static str, _l: usize) -> Result<Self::SerializeStruct, SErr> { unsafe { S_OTHER_CALLS += 1 }; Err(SErr) }
    fn serialize_struct_variant(self, _n: &'static str, _i: u32, _v: &'static str, _l: usize) -> Result<Self::SerializeStructVariant, SErr> { unsafe { S_OTHER_CALLS += 1 }; Err(SErr) }
    fn collect_str<T: ?Sized + core::fmt::Display>(self, _v: &T) -> Result<(), SErr> { unsafe { S_OTHER_CALLS += 1 }; Ok(()) }
}

// @harness name=serde_serialize props=C19 class=B bound="text <= 18 bytes, any storage kind" features=serde,arbitrary tier=quick fn=Serialize covers=ser.post_reachable
#[kani::proof]
fn serde_serialize() {
    use serde::Serialize;
    arm_covers();
    let (a, g) = any_small();
    let r = a.serialize(Rec);
    obl!(r.is_ok(), "ser.ok", "C19");
    obl!(unsafe { S_STR_CALLS == 1 && S_OTHER_CALLS == 0 }, "ser.exactly_one_serialize_str_like_string", "C19");
    obl!(unsafe { S_PTR == text_ptr(&a.0, &g) && S_LEN == g.len }, "ser.serialises_exactly_the_text", "C19");
    cov!(true, "ser.post_reachable");
    core::mem::forget(a);
}

fn serialize_any_contract(pre: (Repr, Ghost)) {
    use serde::Serialize;
    let (r, g) = pre;
    let a = LeanString(r);
    let res = a.serialize(Rec);
    obl!(res.is_ok(), "ser.ok", "C19");
    obl!(unsafe { S_STR_CALLS == 1 && S_OTHER_CALLS == 0 }, "ser.exactly_one_serialize_str_like_string", "C19");
    obl!(unsafe { S_PTR == text_ptr(&a.0, &g) && S_LEN == g.len }, "ser.serialises_exactly_the_text", "C19");
    core::mem::forget(a);
}

// the same contract for SYMBOLIC sizes (the recorder keeps pointer and length, nothing walks the text)
// @harness name=serde_serialize_any_heap props=C19 class=U features=serde,arbitrary tier=quick big=yes fn=Serialize
#[kani::proof]
fn serde_serialize_any_heap() {
    serialize_any_contract(any_heap(MAX_CAP));
}

// @harness name=serde_serialize_any_static props=C19 class=U features=serde,arbitrary tier=quick big=yes fn=Serialize
#[kani::proof]
fn serde_serialize_any_static() {
    serialize_any_contract(any_static(MAX_CAP));
}

// ---------------------------------------------------------------------------------------
// Deserialize
// ---------------------------------------------------------------------------------------

static mut D_CUSTOM_ERRORS: usize = 0;
static mut D_STRING_REQUESTED: usize = 0;
static mut D_OTHER_REQUESTED: usize = 0;
static mut U_OK: bool = false;

fn stub_from_utf8(v: &[u8]) -> Result<&str, core::str::Utf8Error> {
    if unsafe { U_OK } {
        Ok(unsafe { core::str::from_utf8_unchecked(v) })
    } else {
        // some genuine Utf8Error value (from_utf8_mut does not go through the stubbed function):
        // either "invalid byte" (error_len == Some(1)) or "input ends inside a sequence"
        // (error_len == None), both with valid_up_to == 0
        // (two calls on CONCRETE inputs: the real validator on a symbolic byte does not terminate)
        let mut bad1 = [0xFFu8];
        let mut bad2 = [0xC3u8];
        let e1 = core::str::from_utf8_mut(&mut bad1);
        let e2 = core::str::from_utf8_mut(&mut bad2);
        match (e1, e2) {
            (Err(a), Err(b)) => Err(if kani::any() { a } else { b }),
            _ => loop {},
        }
    }
}

/// a validator that is a FUNCTION of its input (arbitrary's own code re-validates a prefix and
/// debug-asserts the answer): accepts exactly the ASCII strings; the error reports 0 valid bytes
fn stub_from_utf8_ascii(v: &[u8]) -> Result<&str, core::str::Utf8Error> {
    let mut ascii = true;
    let mut i = 0;
    while i < v.len() {
        if v[i] >= 0x80 {
            ascii = false;
        }
        i += 1;
    }
    if ascii {
        Ok(unsafe { core::str::from_utf8_unchecked(v) })
    } else {
        let mut bad = [0xFFu8];
        match core::str::from_utf8_mut(&mut bad) {
            Err(e) => Err(e),
            Ok(_) => loop {},
        }
    }
}

/// a Deserializer that answers `deserialize_string` through one of the four visitor methods
struct Feed<'de> {
    data: &'de [u8],
    how: u8,
}
impl<'de> serde::Deserializer<'de> for Feed<'de> {
    type Error = SErr;
    fn deserialize_any<V: serde::de::Visitor<'de>>(self, _v: V) -> Result<V::Value, SErr> {
        unsafe { D_OTHER_REQUESTED += 1 };
        Err(SErr)
    }
    fn deserialize_string<V: serde::de::Visitor<'de>>(self, v: V) -> Result<V::Value, SErr> {
        unsafe { D_STRING_REQUESTED += 1 };
        let s = unsafe { core::str::from_utf8_unchecked(self.data) };
        match self.how {
            0 => v.visit_str(s),
            1 => v.visit_borrowed_str(s),
            2 => v.visit_bytes(self.data),
            _ => v.visit_borrowed_bytes(self.data),
        }
    }
    serde::forward_to_deserialize_any! {
        bool i8 i16 i32 i64 i128 u8 u16 u32 u64 u128 f32 f64 char str bytes byte_buf option unit unit_struct
        newtype_struct seq tuple tuple_struct map struct enum identifier ignored_any
    }
}

// @harness name=serde_deserialize props=C19 class=U features=serde,arbitrary tier=quick fn=Deserialize covers=de.ok,de.err
#[kani::proof]
#[kani::stub(alloc::alloc::alloc, v_alloc)]
#[kani::stub(alloc::alloc::dealloc, v_dealloc)]
#[kani::stub(alloc::alloc::realloc, v_realloc)]
#[kani::stub(core::str::from_utf8, stub_from_utf8)]
fn serde_deserialize() {
    use serde::Deserialize;
    arm_covers();
    let (s, p, n) = crate::repr::verif_mod::any_str(REACH_CAP);
    let pr = crate::repr::verif_mod::probe_arg(p, n);
    let how: u8 = kani::any();
    kani::assume(how < 4);
    unsafe { U_OK = kani::any() };
    let r = LeanString::deserialize(Feed { data: s.as_bytes(), how });
    obl!(unsafe { D_STRING_REQUESTED == 1 && D_OTHER_REQUESTED == 0 }, "de.asks_for_a_string", "C19");
    let bytes_input = how >= 2;
    match r {
        Ok(ls) => {
            cov!(true, "de.ok");
            obl!(!bytes_input || unsafe { U_OK }, "de.bytes_accepted_only_if_the_validator_accepts", "C19");
            let g = view(&ls.0);
            obl!(g.len == n && (n == 0 || text_at(&ls.0, &g, pr.i) == pr.b), "de.text_is_the_input", "C19");
            core::mem::forget(ls);
        }
        Err(_) => {
            cov!(true, "de.err");
            obl!(bytes_input && !unsafe { U_OK }, "de.only_invalid_utf8_bytes_are_rejected", "C19");
            obl!(unsafe { D_CUSTOM_ERRORS } == 1, "de.rejection_is_one_invalid_value_error", "C19");
        }
    }
}

// ---------------------------------------------------------------------------------------
// Arbitrary
// ---------------------------------------------------------------------------------------

// The text a LeanString is built with is observed through the contracts of what builds it:
// `Repr::from_str` / `push_str` / `with_capacity` are replaced by stubs that keep the abstract
// text in a ghost buffer (so that a detour through another constructor is cheap to see).
static mut G_BUF: [u8; 16] = [0; 16];
static mut G_LEN: usize = 0;
fn g_append(s: &str) {
    let b = s.as_bytes();
    let mut i = 0;
    while i < b.len() {
        unsafe {
            if G_LEN < 16 {
                G_BUF[G_LEN] = b[i];
            }
            G_LEN += 1;
        }
        i += 1;
    }
}
fn g_push_str(_r: &mut Repr, s: &str) -> Result<(), ReserveError> {
    g_append(s);
    Ok(())
}
fn g_from_str(s: &str) -> Result<Repr, ReserveError> {
    unsafe { G_LEN = 0 };
    g_append(s);
    Ok(Repr::new())
}
fn g_with_capacity(_n: usize) -> Result<Repr, ReserveError> {
    unsafe { G_LEN = 0 };
    Ok(Repr::new())
}

// @harness name=arbitrary_delegates props=C19 class=B bound="Unstructured over <= 3 symbolic bytes; core validator replaced by an ASCII-only validator; from_str/push_str/with_capacity under contract (ghost text)" unwind=8 features=serde,arbitrary tier=quick fn=Arbitrary covers=arb.ok timeout=1800
#[kani::proof]
#[kani::stub(core::str::from_utf8, stub_from_utf8_ascii)]
#[kani::stub(crate::repr::Repr::from_str, g_from_str)]
#[kani::stub(crate::repr::Repr::push_str, g_push_str)]
#[kani::stub(crate::repr::Repr::with_capacity, g_with_capacity)]
fn arbitrary_delegates() {
    use arbitrary::{Arbitrary, Unstructured};
    arm_covers();
    let data: [u8; 3] = kani::any();
    let n: usize = kani::any();
    kani::assume(n <= 3);
    let take_rest: bool = kani::any();
    let (a, b) = if take_rest {
        (LeanString::arbitrary_take_rest(Unstructured::new(&data[..n])), <&str>::arbitrary_take_rest(Unstructured::new(&data[..n])))
    } else {
        let mut u1 = Unstructured::new(&data[..n]);
        let mut u2 = Unstructured::new(&data[..n]);
        (LeanString::arbitrary(&mut u1), <&str>::arbitrary(&mut u2))
    };
    obl!(a.is_ok() == b.is_ok(), "arb.ok_iff_str_arbitrary_ok", "C19");
    if let (Ok(_), Ok(b)) = (&a, &b) {
        cov!(true, "arb.ok");
        let y = b.as_bytes();
        let mut same = unsafe { G_LEN } == y.len();
        let mut i = 0;
        while i < 3 {
            if i < y.len() && unsafe { G_BUF[i] } != y[i] {
                same = false;
            }
            i += 1;
        }
        obl!(same, "arb.text_is_what_str_arbitrary_yields", "C19");
    }
    obl!(LeanString::size_hint(0) == <&str>::size_hint(0), "arb.size_hint_is_strs", "C19");
    if let Ok(a) = a {
        core::mem::forget(a);
    }
}
