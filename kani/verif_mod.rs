// Injected as `src/repr/verif_mod.rs` (child of `crate::repr`, cfg(kani)).
//
// Contracts of the constructors and of the read-only decoders of `Repr`
// (new, from_str, from_static_str, with_capacity, from_char, from_bool;
//  len, is_empty, capacity, as_bytes, as_str, is_unique, is_heap_buffer).
#![allow(dead_code, unused_imports, unused_variables, static_mut_refs)]

use super::verif_repr::*;
use super::*;

unsafe extern "Rust" {
    fn __rust_alloc(size: usize, align: usize) -> *mut u8;
}

/// an arbitrary `&str` argument: a separate object of symbolic length `n <= max`, arbitrary
/// bytes, of which only the consequence "last byte < 0xC0" of UTF-8 validity is assumed
pub(crate) fn any_str(max: usize) -> (&'static str, *mut u8, usize) {
    let n: usize = kani::any();
    kani::assume(n <= max);
    // a zero-sized request is not allowed by the allocator model of Kani; over-allocate by one
    let p = unsafe { __rust_alloc(n + 1, 1) };
    kani::assume(!p.is_null());
    if n > 0 {
        kani::assume(unsafe { *p.add(n - 1) } < 0xC0);
    }
    let s = unsafe { core::str::from_utf8_unchecked(core::slice::from_raw_parts(p as *const u8, n)) };
    (s, p, n)
}

pub(crate) struct ArgProbe {
    pub i: usize,
    pub b: u8,
}
pub(crate) fn probe_arg(p: *mut u8, n: usize) -> ArgProbe {
    let i: usize = kani::any();
    if n > 0 {
        kani::assume(i < n);
        ArgProbe { i, b: unsafe { *p.add(i) } }
    } else {
        ArgProbe { i: 0, b: 0 }
    }
}

// ---------------------------------------------------------------------------------------
// from_str
// ---------------------------------------------------------------------------------------

// @harness name=from_str_any nodebug=thorough hist=yes props=C01,C03,C05,C06,C09 class=U tier=quick big=yes
#[kani::proof]
#[kani::stub(alloc::alloc::alloc, v_alloc)]
#[kani::stub(alloc::alloc::dealloc, v_dealloc)]
#[kani::stub(alloc::alloc::realloc, v_realloc)]
fn from_str_any() {
    from_str_contract(MAX_CAP);
}

// @harness name=from_str_reach props=C01,C03,C05,C06,C09 class=U tier=quick covers=from_str.err_reachable,from_str.inline,from_str.heap
#[kani::proof]
#[kani::stub(alloc::alloc::alloc, v_alloc)]
#[kani::stub(alloc::alloc::dealloc, v_dealloc)]
#[kani::stub(alloc::alloc::realloc, v_realloc)]
fn from_str_reach() {
    arm_covers();
    from_str_contract(REACH_CAP);
}

fn from_str_contract(max: usize) {
    unsafe { A_FAIL = true };
    let (s, p, n) = any_str(max);
    let pr = probe_arg(p, n);
    let calls0 = alloc_calls();
    let live0 = live_blocks();
    let res = Repr::from_str(s);
    match res {
        Err(_) => {
            cov!(true, "from_str.err_reachable");
            obl!(unsafe { A_REFUSED > 0 }, "from_str.err_only_if_refused", "C01,C05");
            obl!(live_blocks() == live0, "from_str.err_leaks_nothing", "C03,C05");
            obl!(unsafe { A_ALLOC } == 1 && unsafe { A_REALLOC + A_DEALLOC } == 0, "from_str.err_one_request", "C05");
            obl!(n > MAX_INLINE_SIZE, "from_str.err_only_when_heap_needed", "C09");
        }
        Ok(r) => {
            obl!(wf(&r), "from_str.wf", "C01,C03,C20");
            let h = view(&r);
            obl!(h.len == n, "from_str.len", "C01");
            obl!(n == 0 || text_at(&r, &h, pr.i) == pr.b, "from_str.text", "C01");
            if n <= MAX_INLINE_SIZE {
                cov!(true, "from_str.inline");
                obl!(h.kind == K_INLINE && alloc_calls() == calls0, "from_str.no_alloc_if_le_16", "C09");
            } else {
                cov!(true, "from_str.heap");
                obl!(h.kind == K_HEAP && h.rc == 1, "from_str.heap_unique", "C03,C09");
                obl!(h.cap == n, "from_str.cap_eq_len", "C09");
                obl!(
                    unsafe { A_ALLOC } == 1 && unsafe { A_REALLOC + A_DEALLOC } == 0 && live_blocks() == live0 + 1,
                    "from_str.exactly_one_alloc",
                    "C03,C09"
                );
                obl!(unsafe { A_LAST_SIZE } == HDR + n, "from_str.alloc_size_covers_capacity", "C03,C06");
            }
        }
    }
    obl!(n == 0 || unsafe { *p.add(pr.i) } == pr.b, "from_str.argument_untouched", "C02");
}

// ---------------------------------------------------------------------------------------
// from_static_str
// ---------------------------------------------------------------------------------------

// @harness name=from_static_str_any hist=yes props=C01,C09,C10 class=U tier=quick big=yes
#[kani::proof]
#[kani::stub(alloc::alloc::alloc, v_alloc)]
#[kani::stub(alloc::alloc::dealloc, v_dealloc)]
#[kani::stub(alloc::alloc::realloc, v_realloc)]
fn from_static_str_any() {
    from_static_str_contract(MAX_CAP);
}

// @harness name=from_static_str_reach props=C01,C09,C10 class=U tier=quick covers=from_static_str.inline,from_static_str.static
#[kani::proof]
#[kani::stub(alloc::alloc::alloc, v_alloc)]
#[kani::stub(alloc::alloc::dealloc, v_dealloc)]
#[kani::stub(alloc::alloc::realloc, v_realloc)]
fn from_static_str_reach() {
    arm_covers();
    from_static_str_contract(REACH_CAP);
}

fn from_static_str_contract(max: usize) {
    unsafe { A_FAIL = true };
    let (s, p, n) = any_str(max);
    let pr = probe_arg(p, n);
    let res = Repr::from_static_str(s);
    obl!(alloc_calls() == 0, "from_static_str.never_allocates", "C09,C10");
    obl!(res.is_ok(), "from_static_str.ok_below_2_pow_56", "C01");
    if let Ok(r) = res {
        obl!(wf(&r), "from_static_str.wf", "C01,C20");
        let h = view(&r);
        obl!(h.len == n, "from_static_str.len", "C01");
        obl!(n == 0 || text_at(&r, &h, pr.i) == pr.b, "from_static_str.text", "C01,C10");
        if n <= MAX_INLINE_SIZE {
            cov!(true, "from_static_str.inline");
            obl!(h.kind == K_INLINE, "from_static_str.inline_if_le_16", "C09");
        } else {
            cov!(true, "from_static_str.static");
            obl!(h.kind == K_STATIC && h.base == p, "from_static_str.points_at_callers_bytes", "C10");
        }
    }
    obl!(n == 0 || unsafe { *p.add(pr.i) } == pr.b, "from_static_str.argument_untouched", "C10");
}

// ---------------------------------------------------------------------------------------
// with_capacity / new / from_char / from_bool
// ---------------------------------------------------------------------------------------

// @harness name=with_capacity_any nodebug=thorough hist=yes props=C01,C03,C05,C06,C09,C11 class=U tier=quick covers=with_capacity.inline,with_capacity.heap,with_capacity.err_reachable,with_capacity.too_large
#[kani::proof]
#[kani::stub(alloc::alloc::alloc, v_alloc)]
#[kani::stub(alloc::alloc::dealloc, v_dealloc)]
#[kani::stub(alloc::alloc::realloc, v_realloc)]
fn with_capacity_any() {
    arm_covers();
    unsafe { A_FAIL = true };
    let c: usize = kani::any();
    let res = Repr::with_capacity(c);
    match res {
        Err(_) => {
            cov!(true, "with_capacity.err_reachable");
            cov!(c > MAX56, "with_capacity.too_large");
            obl!(unsafe { A_REFUSED > 0 } || c > MAX56, "with_capacity.err_only_if_refused_or_too_large", "C01,C05,C06");
            obl!(live_blocks() == 0, "with_capacity.err_leaks_nothing", "C03,C05,C06");
            obl!(c > MAX_INLINE_SIZE, "with_capacity.err_only_when_heap_needed", "C09");
        }
        Ok(r) => {
            obl!(wf(&r), "with_capacity.wf", "C01,C03,C20");
            let h = view(&r);
            obl!(h.len == 0, "with_capacity.empty", "C01");
            obl!(h.cap >= c, "with_capacity.cap_ge_n", "C06,C11");
            if c <= MAX_INLINE_SIZE {
                cov!(true, "with_capacity.inline");
                obl!(h.kind == K_INLINE && alloc_calls() == 0, "with_capacity.no_alloc_if_le_16", "C09");
            } else {
                cov!(true, "with_capacity.heap");
                obl!(h.kind == K_HEAP && h.rc == 1 && h.cap == c, "with_capacity.heap_exact_unique", "C03,C11");
                obl!(
                    unsafe { A_ALLOC } == 1 && unsafe { A_REALLOC + A_DEALLOC } == 0 && live_blocks() == 1,
                    "with_capacity.exactly_one_alloc",
                    "C03"
                );
                obl!(unsafe { A_LAST_SIZE } == HDR + c, "with_capacity.alloc_size_covers_capacity", "C03,C06");
            }
        }
    }
}

// @harness name=new_empty hist=yes props=C01,C09,C20 class=U tier=quick
#[kani::proof]
#[kani::stub(alloc::alloc::alloc, v_alloc)]
#[kani::stub(alloc::alloc::dealloc, v_dealloc)]
#[kani::stub(alloc::alloc::realloc, v_realloc)]
fn new_empty() {
    let r = Repr::new();
    let h = view(&r);
    obl!(wf(&r) && h.kind == K_INLINE && h.len == 0, "new.empty_inline", "C01,C09,C20");
    obl!(alloc_calls() == 0, "new.no_alloc", "C09");
}

/// UTF-8 encoding of a scalar value, written from the definition (Unicode Table 3-6)
pub(crate) fn spec_encode(c: u32) -> ([u8; 4], usize) {
    if c < 0x80 {
        ([c as u8, 0, 0, 0], 1)
    } else if c < 0x800 {
        ([0xC0 | (c >> 6) as u8, 0x80 | (c & 0x3F) as u8, 0, 0], 2)
    } else if c < 0x10000 {
        ([0xE0 | (c >> 12) as u8, 0x80 | ((c >> 6) & 0x3F) as u8, 0x80 | (c & 0x3F) as u8, 0], 3)
    } else {
        (
            [
                0xF0 | (c >> 18) as u8,
                0x80 | ((c >> 12) & 0x3F) as u8,
                0x80 | ((c >> 6) & 0x3F) as u8,
                0x80 | (c & 0x3F) as u8,
            ],
            4,
        )
    }
}

// @harness name=from_char_any hist=yes props=C01,C09,C15 class=U tier=quick covers=from_char.w1,from_char.w2,from_char.w3,from_char.w4
#[kani::proof]
#[kani::stub(alloc::alloc::alloc, v_alloc)]
#[kani::stub(alloc::alloc::dealloc, v_dealloc)]
#[kani::stub(alloc::alloc::realloc, v_realloc)]
fn from_char_any() {
    arm_covers();
    let ch: char = kani::any();
    let r = Repr::from_char(ch);
    let h = view(&r);
    let (e, w) = spec_encode(ch as u32);
    cov!(w == 1, "from_char.w1");
    cov!(w == 2, "from_char.w2");
    cov!(w == 3, "from_char.w3");
    cov!(w == 4, "from_char.w4");
    obl!(wf(&r) && h.kind == K_INLINE, "from_char.inline", "C01,C09");
    obl!(alloc_calls() == 0, "from_char.no_alloc", "C09");
    obl!(h.len == w, "from_char.len_is_utf8_width", "C01,C15");
    let i: usize = kani::any();
    kani::assume(i < w);
    obl!(text_at(&r, &h, i) == e[i], "from_char.bytes_are_utf8_encoding", "C01,C15");
}

// @harness name=from_bool_both props=C01,C09,C15 class=U tier=quick
#[kani::proof]
#[kani::stub(alloc::alloc::alloc, v_alloc)]
#[kani::stub(alloc::alloc::dealloc, v_dealloc)]
#[kani::stub(alloc::alloc::realloc, v_realloc)]
fn from_bool_both() {
    let b: bool = kani::any();
    let r = Repr::from_bool(b);
    let h = view(&r);
    obl!(wf(&r) && h.kind == K_INLINE && alloc_calls() == 0, "from_bool.inline_no_alloc", "C09");
    let t = [b't', b'r', b'u', b'e', 0];
    let f = [b'f', b'a', b'l', b's', b'e'];
    let mut ok = h.len == if b { 4 } else { 5 };
    let mut i = 0;
    while i < 5 {
        if i < h.len && text_at(&r, &h, i) != (if b { t[i] } else { f[i] }) {
            ok = false;
        }
        i += 1;
    }
    obl!(ok, "from_bool.text_is_true_or_false", "C01,C15");
}

// ---------------------------------------------------------------------------------------
// read-only decoders against the ghost view
// ---------------------------------------------------------------------------------------

fn view_contract(pre: (Repr, Ghost)) {
    let (r, g) = pre;
    let f = Frame::snapshot(&r, &g);
    obl!(wf(&r), "gen.wf", "C01");
    obl!(r.len() == g.len, "view.len", "C01,C17");
    obl!(r.is_empty() == (g.len == 0), "view.is_empty", "C01");
    obl!(r.capacity() == g.cap, "view.capacity", "C01,C11");
    obl!(r.capacity() >= r.len(), "view.capacity_ge_len", "C11");
    obl!(r.is_heap_buffer() == (g.kind == K_HEAP), "view.is_heap_buffer", "C09");
    obl!(r.is_unique() == (g.kind != K_HEAP || g.rc == 1), "view.is_unique", "C02");
    let b = r.as_bytes();
    obl!(b.len() == g.len && b.as_ptr() == text_ptr(&r, &g), "view.as_bytes_is_the_text", "C01,C08,C10,C17");
    let s = r.as_str();
    obl!(s.len() == g.len && s.as_ptr() == text_ptr(&r, &g), "view.as_str_is_the_text", "C01,C08,C10,C17");
    obl!(f.same_bits(&r) && f.no_alloc_calls(), "view.read_only", "C02,C08");
    if g.kind == K_HEAP {
        obl!(f.old_block_intact(g.rc), "view.block_untouched", "C02");
        obl!(unsafe { r.as_heap_buffer() }.capacity() == g.cap, "view.heap_capacity", "C11");
    } else {
        obl!(f.static_untouched(), "view.static_untouched", "C10");
    }
    cov!(true, "view.post_reachable");
}

// @harness name=view_heap hist=yes props=C01,C02,C08,C09,C11,C17 class=U tier=quick big=yes
#[kani::proof]
#[kani::stub(alloc::alloc::alloc, v_alloc)]
#[kani::stub(alloc::alloc::dealloc, v_dealloc)]
#[kani::stub(alloc::alloc::realloc, v_realloc)]
fn view_heap() {
    view_contract(any_heap(MAX_CAP));
}

// @harness name=view_static props=C01,C08,C10,C11,C17 class=U tier=quick big=yes
#[kani::proof]
#[kani::stub(alloc::alloc::alloc, v_alloc)]
#[kani::stub(alloc::alloc::dealloc, v_dealloc)]
#[kani::stub(alloc::alloc::realloc, v_realloc)]
fn view_static() {
    view_contract(any_static(MAX_CAP));
}

// @harness name=view_inline nodebug=quick hist=yes props=C01,C08,C09,C11,C17,C20 class=U tier=quick covers=view.post_reachable
#[kani::proof]
#[kani::stub(alloc::alloc::alloc, v_alloc)]
#[kani::stub(alloc::alloc::dealloc, v_dealloc)]
#[kani::stub(alloc::alloc::realloc, v_realloc)]
fn view_inline() {
    arm_covers();
    view_contract(any_inline());
}

// @harness name=view_reach props=C01,C02,C08,C10,C11,C17 class=U tier=quick covers=view.post_reachable
#[kani::proof]
#[kani::stub(alloc::alloc::alloc, v_alloc)]
#[kani::stub(alloc::alloc::dealloc, v_dealloc)]
#[kani::stub(alloc::alloc::realloc, v_realloc)]
fn view_reach() {
    arm_covers();
    view_contract(any_repr(REACH_CAP));
}

// ---------------------------------------------------------------------------------------
// niche: no well-formed value is mistaken for None (C20)
// ---------------------------------------------------------------------------------------

// @harness name=niche_option nodebug=quick props=C20 class=U tier=quick covers=niche.post_reachable
#[kani::proof]
fn niche_option() {
    arm_covers();
    let (r, g) = any_repr(REACH_CAP);
    obl!(lastb(&r) <= 0xD1, "niche.last_byte_le_0xD1", "C20");
    let bits = raw_bytes(&r);
    let p0 = word0_ptr(&r);
    let o: Option<Repr> = Some(r);
    obl!(o.is_some(), "niche.some_is_some", "C20");
    obl!(core::mem::size_of::<Option<Repr>>() == 16 && core::mem::size_of::<Repr>() == 16, "niche.two_words", "C20");
    if let Some(back) = o {
        let b2 = raw_bytes(&back);
        let mut same = true;
        let mut i = 8;
        while i < 16 {
            if b2[i] != bits[i] {
                same = false;
            }
            i += 1;
        }
        obl!(same && (g.kind == K_INLINE || word0_ptr(&back) == p0), "niche.roundtrip_same_bits", "C20");
    }
    let n: Option<Repr> = None;
    obl!(n.is_none(), "niche.none_is_none", "C20");
    cov!(true, "niche.post_reachable");
}
