// Injected as `src/repr/verif_ops.rs` (child of `crate::repr`, cfg(kani)).
//
// Harness-encoded contracts {WF /\ pre} f {WF /\ post /\ frame} for the storage-management
// core of `Repr`: reserve, ensure_modifiable, make_shallow_clone, replace_inner, shrink_to.
// Every harness calls the REAL function on an arbitrary well-formed pre-state with
// unconstrained `usize` arguments and a refusing allocator.
//
// `// @harness` lines are read by the runner (lib/registry.py).
#![allow(dead_code, unused_imports, unused_variables, static_mut_refs)]

use super::verif_repr::*;
use super::*;

/// the growth rule the properties state (C12): at least len + len/2, at most the greater of
/// that and the need
pub(crate) fn spec_growth(len: usize, additional: usize) -> usize {
    let need = len + additional; // caller guarantees no overflow
    let amortized = len + len / 2;
    if amortized > need { amortized } else { need }
}

// ---------------------------------------------------------------------------------------
// reserve
// ---------------------------------------------------------------------------------------

pub(crate) fn reserve_post(
    r: &Repr,
    f: &Frame,
    add: usize,
    res: Result<(), ReserveError>,
) {
    let g = f.g;
    let need = g.len.checked_add(add);
    let refused = unsafe { A_REFUSED > 0 };
    match res {
        Err(_) => {
            cov!(true, "reserve.err_reachable");
            obl!(unchanged_after_error(f, r), "reserve.err_unchanged", "C02,C03,C05,C06");
            obl!(wf(r), "reserve.err_usable", "C05");
            obl!(
                refused || need.is_none() || spec_growth(g.len, add) > MAX56,
                "reserve.err_only_if_refused_or_too_large",
                "C01,C06"
            );
            obl!(f.allocs() + f.reallocs() <= 1 && f.deallocs() == 0, "reserve.err_alloc_calls_le_1", "C05");
        }
        Ok(()) => {
            cov!(true, "reserve.ok_reachable");
            obl!(wf(r), "reserve.wf", "C01,C03,C20");
            let h = view(r);
            obl!(h.len == g.len, "reserve.len_same", "C01");
            obl!(f.text_probe_same(r, &h), "reserve.text_same", "C01,C10");
            obl!(need.is_some(), "reserve.ok_implies_no_overflow", "C06");
            if need.is_none() {
                return;
            }
            let need = g.len + add;
            obl!(h.cap >= need, "reserve.cap_ge_len_plus_n", "C06,C11");
            obl!(
                h.kind == K_INLINE || (h.kind == K_HEAP && h.rc == 1),
                "reserve.result_exclusive_and_writable",
                "C02,C10,C11"
            );
            obl!(f.static_untouched(), "reserve.static_untouched", "C10,C02");
            if g.kind == K_HEAP && g.rc == 1 {
                if g.cap >= need {
                    cov!(true, "reserve.unique_fits");
                    obl!(
                        f.no_alloc_calls() && f.same_bits(r),
                        "reserve.no_alloc_no_move_if_fits_and_unique",
                        "C11"
                    );
                } else {
                    cov!(true, "reserve.unique_grows");
                    obl!(
                        f.reallocs() == 1 && f.allocs() == 0 && f.deallocs() == 0,
                        "reserve.unique_grow_is_one_realloc",
                        "C03,C05"
                    );
                    obl!(h.kind == K_HEAP && h.cap == spec_growth(g.len, add), "reserve.growth_unique", "C12");
                    obl!(live_blocks() == f.live, "reserve.live_delta_unique", "C03");
                }
            } else if g.kind == K_HEAP {
                cov!(true, "reserve.shared");
                obl!(f.old_block_intact(g.rc - 1), "reserve.shared_old_block_intact", "C02,C03,C11");
                obl!(h.kind == K_HEAP && h.base != g.base, "reserve.shared_moves_to_own_block", "C02");
                obl!(h.cap == spec_growth(g.len, add), "reserve.growth_shared", "C12");
                obl!(
                    f.allocs() == 1 && f.reallocs() == 0 && f.deallocs() == 0,
                    "reserve.shared_is_one_alloc",
                    "C03,C05"
                );
                obl!(live_blocks() == f.live + 1, "reserve.live_delta_shared", "C03");
            } else {
                // static or inline
                if need <= MAX_INLINE_SIZE {
                    cov!(g.kind == K_STATIC, "reserve.static_to_inline");
                    obl!(h.kind == K_INLINE && f.no_alloc_calls(), "reserve.small_stays_off_heap", "C09,C10");
                    if g.kind == K_INLINE {
                        obl!(f.same_bits(r), "reserve.inline_fits_noop", "C09,C11");
                    }
                } else {
                    cov!(g.kind == K_STATIC, "reserve.static_to_heap");
                    cov!(g.kind == K_INLINE, "reserve.inline_to_heap");
                    obl!(h.kind == K_HEAP && h.cap == spec_growth(g.len, add), "reserve.growth_from_inline_or_static", "C12");
                    obl!(
                        f.allocs() == 1 && f.reallocs() == 0 && f.deallocs() == 0,
                        "reserve.to_heap_is_one_alloc",
                        "C03,C05"
                    );
                    obl!(live_blocks() == f.live + 1, "reserve.live_delta_to_heap", "C03");
                }
            }
        }
    }
}

fn reserve_contract(pre: (Repr, Ghost)) {
    unsafe { A_FAIL = true };
    let (mut r, g) = pre;
    obl!(wf(&r), "gen.wf", "C01");
    let f = Frame::snapshot(&r, &g);
    let add: usize = kani::any();
    let res = r.reserve(add);
    reserve_post(&r, &f, add, res);
}

// @harness name=reserve_heap_unique nodebug=quick hist=yes props=C01,C02,C03,C05,C06,C11,C12 class=U tier=quick big=yes
#[kani::proof]
#[kani::stub(alloc::alloc::alloc, v_alloc)]
#[kani::stub(alloc::alloc::dealloc, v_dealloc)]
#[kani::stub(alloc::alloc::realloc, v_realloc)]
fn reserve_heap_unique() {
    reserve_contract(any_heap_rc(MAX_CAP, true));
}

// @harness name=reserve_heap_shared nodebug=quick hist=yes props=C01,C02,C03,C05,C06,C11,C12 class=U tier=quick big=yes
#[kani::proof]
#[kani::stub(alloc::alloc::alloc, v_alloc)]
#[kani::stub(alloc::alloc::dealloc, v_dealloc)]
#[kani::stub(alloc::alloc::realloc, v_realloc)]
fn reserve_heap_shared() {
    reserve_contract(any_heap_rc(MAX_CAP, false));
}

// @harness name=reserve_heap_reach props=C01,C02,C03,C05,C06,C11,C12 class=U tier=quick covers=reserve.err_reachable,reserve.ok_reachable,reserve.unique_fits,reserve.unique_grows,reserve.shared
#[kani::proof]
#[kani::stub(alloc::alloc::alloc, v_alloc)]
#[kani::stub(alloc::alloc::dealloc, v_dealloc)]
#[kani::stub(alloc::alloc::realloc, v_realloc)]
fn reserve_heap_reach() {
    arm_covers();
    reserve_contract(any_heap(REACH_CAP));
}

// @harness name=reserve_static nodebug=thorough hist=yes props=C01,C03,C05,C06,C09,C10,C11,C12 class=U tier=quick big=yes
#[kani::proof]
#[kani::stub(alloc::alloc::alloc, v_alloc)]
#[kani::stub(alloc::alloc::dealloc, v_dealloc)]
#[kani::stub(alloc::alloc::realloc, v_realloc)]
fn reserve_static() {
    reserve_contract(any_static(MAX_CAP));
}

// @harness name=reserve_static_reach props=C01,C03,C05,C06,C09,C10,C11,C12 class=U tier=quick covers=reserve.err_reachable,reserve.ok_reachable,reserve.static_to_inline,reserve.static_to_heap
#[kani::proof]
#[kani::stub(alloc::alloc::alloc, v_alloc)]
#[kani::stub(alloc::alloc::dealloc, v_dealloc)]
#[kani::stub(alloc::alloc::realloc, v_realloc)]
fn reserve_static_reach() {
    arm_covers();
    reserve_contract(any_static(REACH_CAP));
}

// @harness name=reserve_inline nodebug=thorough hist=yes props=C01,C03,C05,C06,C09,C11,C12 class=U tier=quick
#[kani::proof]
#[kani::stub(alloc::alloc::alloc, v_alloc)]
#[kani::stub(alloc::alloc::dealloc, v_dealloc)]
#[kani::stub(alloc::alloc::realloc, v_realloc)]
fn reserve_inline() {
    reserve_contract(any_inline());
}

// @harness name=reserve_inline_reach props=C01,C03,C05,C06,C09,C11,C12 class=U tier=quick covers=reserve.err_reachable,reserve.ok_reachable,reserve.inline_to_heap
#[kani::proof]
#[kani::stub(alloc::alloc::alloc, v_alloc)]
#[kani::stub(alloc::alloc::dealloc, v_dealloc)]
#[kani::stub(alloc::alloc::realloc, v_realloc)]
fn reserve_inline_reach() {
    arm_covers();
    reserve_contract(any_inline());
}

// ---------------------------------------------------------------------------------------
// ensure_modifiable
// ---------------------------------------------------------------------------------------

pub(crate) fn ensure_modifiable_post(r: &Repr, f: &Frame, res: Result<(), ReserveError>) {
    let g = f.g;
    let refused = unsafe { A_REFUSED > 0 };
    match res {
        Err(_) => {
            cov!(true, "ensure_modifiable.err_reachable");
            obl!(unchanged_after_error(f, r), "ensure_modifiable.err_unchanged", "C02,C03,C05");
            obl!(wf(r), "ensure_modifiable.err_usable", "C05");
            obl!(refused, "ensure_modifiable.err_only_if_refused", "C01");
            obl!(f.allocs() + f.reallocs() <= 1 && f.deallocs() == 0, "ensure_modifiable.err_alloc_calls_le_1", "C05");
        }
        Ok(()) => {
            cov!(true, "ensure_modifiable.ok_reachable");
            obl!(wf(r), "ensure_modifiable.wf", "C01,C03,C20");
            let h = view(r);
            obl!(h.len == g.len, "ensure_modifiable.len_same", "C01");
            obl!(f.text_probe_same(r, &h), "ensure_modifiable.text_same", "C01,C10");
            obl!(
                h.kind == K_INLINE || (h.kind == K_HEAP && h.rc == 1),
                "ensure_modifiable.result_exclusive_and_writable",
                "C02,C10"
            );
            obl!(f.static_untouched(), "ensure_modifiable.static_untouched", "C10,C02");
            if g.kind == K_HEAP && g.rc == 1 {
                cov!(true, "ensure_modifiable.unique");
                obl!(f.no_alloc_calls() && f.same_bits(r), "ensure_modifiable.unique_noop", "C11,C03");
            } else if g.kind == K_HEAP {
                cov!(true, "ensure_modifiable.shared");
                obl!(f.old_block_intact(g.rc - 1), "ensure_modifiable.shared_old_block_intact", "C02,C03,C11");
                obl!(h.kind == K_HEAP && h.base != g.base, "ensure_modifiable.shared_moves_to_own_block", "C02");
                obl!(
                    f.allocs() == 1 && f.reallocs() == 0 && f.deallocs() == 0,
                    "ensure_modifiable.shared_is_one_alloc",
                    "C03,C05"
                );
                obl!(live_blocks() == f.live + 1, "ensure_modifiable.live_delta_shared", "C03");
            } else if g.kind == K_STATIC {
                if g.len <= MAX_INLINE_SIZE {
                    cov!(true, "ensure_modifiable.static_to_inline");
                    obl!(h.kind == K_INLINE && f.no_alloc_calls(), "ensure_modifiable.small_static_to_inline", "C09,C10");
                } else {
                    cov!(true, "ensure_modifiable.static_to_heap");
                    obl!(
                        h.kind == K_HEAP && f.allocs() == 1 && f.reallocs() == 0 && f.deallocs() == 0,
                        "ensure_modifiable.static_to_heap_is_one_alloc",
                        "C03,C10"
                    );
                    obl!(live_blocks() == f.live + 1, "ensure_modifiable.live_delta_static", "C03");
                }
            } else {
                obl!(f.no_alloc_calls() && f.same_bits(r), "ensure_modifiable.inline_noop", "C09");
            }
        }
    }
}

fn ensure_modifiable_contract(pre: (Repr, Ghost)) {
    unsafe { A_FAIL = true };
    let (mut r, g) = pre;
    let f = Frame::snapshot(&r, &g);
    let res = r.ensure_modifiable();
    ensure_modifiable_post(&r, &f, res);
}

// @harness name=ensure_modifiable_heap_unique nodebug=thorough hist=yes props=C01,C02,C03,C05 class=U tier=quick big=yes
#[kani::proof]
#[kani::stub(alloc::alloc::alloc, v_alloc)]
#[kani::stub(alloc::alloc::dealloc, v_dealloc)]
#[kani::stub(alloc::alloc::realloc, v_realloc)]
fn ensure_modifiable_heap_unique() {
    ensure_modifiable_contract(any_heap_rc(MAX_CAP, true));
}

// @harness name=ensure_modifiable_heap_shared nodebug=thorough hist=yes props=C01,C02,C03,C05,C11 class=U tier=quick big=yes
#[kani::proof]
#[kani::stub(alloc::alloc::alloc, v_alloc)]
#[kani::stub(alloc::alloc::dealloc, v_dealloc)]
#[kani::stub(alloc::alloc::realloc, v_realloc)]
fn ensure_modifiable_heap_shared() {
    ensure_modifiable_contract(any_heap_rc(MAX_CAP, false));
}

// @harness name=ensure_modifiable_heap_reach props=C01,C02,C03,C05,C11 class=U tier=quick covers=ensure_modifiable.err_reachable,ensure_modifiable.unique,ensure_modifiable.shared
#[kani::proof]
#[kani::stub(alloc::alloc::alloc, v_alloc)]
#[kani::stub(alloc::alloc::dealloc, v_dealloc)]
#[kani::stub(alloc::alloc::realloc, v_realloc)]
fn ensure_modifiable_heap_reach() {
    arm_covers();
    ensure_modifiable_contract(any_heap(REACH_CAP));
}

// @harness name=ensure_modifiable_static hist=yes props=C01,C03,C05,C09,C10 class=U tier=quick big=yes
#[kani::proof]
#[kani::stub(alloc::alloc::alloc, v_alloc)]
#[kani::stub(alloc::alloc::dealloc, v_dealloc)]
#[kani::stub(alloc::alloc::realloc, v_realloc)]
fn ensure_modifiable_static() {
    ensure_modifiable_contract(any_static(MAX_CAP));
}

// @harness name=ensure_modifiable_static_reach props=C01,C03,C05,C09,C10 class=U tier=quick covers=ensure_modifiable.err_reachable,ensure_modifiable.static_to_inline,ensure_modifiable.static_to_heap
#[kani::proof]
#[kani::stub(alloc::alloc::alloc, v_alloc)]
#[kani::stub(alloc::alloc::dealloc, v_dealloc)]
#[kani::stub(alloc::alloc::realloc, v_realloc)]
fn ensure_modifiable_static_reach() {
    arm_covers();
    ensure_modifiable_contract(any_static(REACH_CAP));
}

// @harness name=ensure_modifiable_inline props=C01,C05,C09 class=U tier=quick
#[kani::proof]
#[kani::stub(alloc::alloc::alloc, v_alloc)]
#[kani::stub(alloc::alloc::dealloc, v_dealloc)]
#[kani::stub(alloc::alloc::realloc, v_realloc)]
fn ensure_modifiable_inline() {
    ensure_modifiable_contract(any_inline());
}

// @harness name=ensure_modifiable_inline_reach props=C01,C05,C09 class=U tier=quick covers=ensure_modifiable.ok_reachable
#[kani::proof]
#[kani::stub(alloc::alloc::alloc, v_alloc)]
#[kani::stub(alloc::alloc::dealloc, v_dealloc)]
#[kani::stub(alloc::alloc::realloc, v_realloc)]
fn ensure_modifiable_inline_reach() {
    arm_covers();
    ensure_modifiable_contract(any_inline());
}

// ---------------------------------------------------------------------------------------
// make_shallow_clone
// ---------------------------------------------------------------------------------------

fn clone_contract(pre: (Repr, Ghost)) {
    unsafe { A_FAIL = true };
    let (r, g) = pre;
    let f = Frame::snapshot(&r, &g);
    let c = r.make_shallow_clone();
    obl!(f.no_alloc_calls(), "clone.no_alloc", "C08,C09,C10");
    obl!(f.same_bits(&c), "clone.bitwise_same", "C01,C08,C10");
    obl!(f.same_bits(&r), "clone.source_handle_unchanged", "C02,C08");
    obl!(wf(&c) && wf(&r), "clone.wf", "C01,C03,C20");
    if g.kind == K_HEAP {
        cov!(g.rc > 1, "clone.heap_shared");
        cov!(g.rc == 1, "clone.heap_unique");
        obl!(f.old_block_intact(g.rc + 1), "clone.rc_plus_one_block_intact", "C02,C03,C08");
    } else {
        obl!(f.static_untouched(), "clone.static_untouched", "C10");
    }
    obl!(live_blocks() == f.live, "clone.live_delta", "C03");
    cov!(true, "clone.post_reachable");
}

// @harness name=clone_heap_unique hist=yes props=C01,C02,C03,C08 class=U tier=quick big=yes
#[kani::proof]
#[kani::stub(alloc::alloc::alloc, v_alloc)]
#[kani::stub(alloc::alloc::dealloc, v_dealloc)]
#[kani::stub(alloc::alloc::realloc, v_realloc)]
fn clone_heap_unique() {
    clone_contract(any_heap_rc(MAX_CAP, true));
}

// @harness name=clone_heap_shared nodebug=thorough hist=yes props=C01,C02,C03,C08 class=U tier=quick big=yes
#[kani::proof]
#[kani::stub(alloc::alloc::alloc, v_alloc)]
#[kani::stub(alloc::alloc::dealloc, v_dealloc)]
#[kani::stub(alloc::alloc::realloc, v_realloc)]
fn clone_heap_shared() {
    clone_contract(any_heap_rc(MAX_CAP, false));
}

// @harness name=clone_heap_reach props=C01,C02,C03,C08 class=U tier=quick covers=clone.heap_shared,clone.heap_unique,clone.post_reachable
#[kani::proof]
#[kani::stub(alloc::alloc::alloc, v_alloc)]
#[kani::stub(alloc::alloc::dealloc, v_dealloc)]
#[kani::stub(alloc::alloc::realloc, v_realloc)]
fn clone_heap_reach() {
    arm_covers();
    clone_contract(any_heap(REACH_CAP));
}

// @harness name=clone_static hist=yes props=C01,C08,C10 class=U tier=quick big=yes
#[kani::proof]
#[kani::stub(alloc::alloc::alloc, v_alloc)]
#[kani::stub(alloc::alloc::dealloc, v_dealloc)]
#[kani::stub(alloc::alloc::realloc, v_realloc)]
fn clone_static() {
    clone_contract(any_static(MAX_CAP));
}

// @harness name=clone_static_reach props=C01,C08,C10 class=U tier=quick covers=clone.post_reachable
#[kani::proof]
#[kani::stub(alloc::alloc::alloc, v_alloc)]
#[kani::stub(alloc::alloc::dealloc, v_dealloc)]
#[kani::stub(alloc::alloc::realloc, v_realloc)]
fn clone_static_reach() {
    arm_covers();
    clone_contract(any_static(REACH_CAP));
}

// @harness name=clone_inline hist=yes props=C01,C08,C09 class=U tier=quick
#[kani::proof]
#[kani::stub(alloc::alloc::alloc, v_alloc)]
#[kani::stub(alloc::alloc::dealloc, v_dealloc)]
#[kani::stub(alloc::alloc::realloc, v_realloc)]
fn clone_inline() {
    clone_contract(any_inline());
}

// @harness name=clone_inline_reach props=C01,C08,C09 class=U tier=quick covers=clone.post_reachable
#[kani::proof]
#[kani::stub(alloc::alloc::alloc, v_alloc)]
#[kani::stub(alloc::alloc::dealloc, v_dealloc)]
#[kani::stub(alloc::alloc::realloc, v_realloc)]
fn clone_inline_reach() {
    arm_covers();
    clone_contract(any_inline());
}

// ---------------------------------------------------------------------------------------
// replace_inner  (Drop, clone_from, clear-on-shared, shrink_to all end here)
// ---------------------------------------------------------------------------------------

pub(crate) fn replace_inner_post(r: &Repr, f: &Frame, new_bits: &Frame) {
    let g = f.g;
    obl!(new_bits.same_bits(r), "replace_inner.holds_new_value", "C01");
    if g.kind == K_HEAP {
        if g.rc > 1 {
            cov!(true, "replace_inner.shared");
            obl!(f.old_block_intact(g.rc - 1), "replace_inner.shared_rc_minus_one_block_intact", "C02,C03");
            obl!(f.no_alloc_calls(), "replace_inner.shared_no_alloc_calls", "C03");
        } else {
            cov!(true, "replace_inner.last_owner");
            obl!(
                f.deallocs() == 1 && f.allocs() == 0 && f.reallocs() == 0,
                "replace_inner.last_owner_frees_exactly_once",
                "C03"
            );
            obl!(!is_live(g.base), "replace_inner.last_owner_block_released", "C03");
            obl!(live_blocks() == f.live - 1, "replace_inner.live_delta_last_owner", "C03");
        }
    } else {
        obl!(f.no_alloc_calls(), "replace_inner.non_heap_no_alloc_calls", "C03,C09,C10");
        obl!(f.static_untouched(), "replace_inner.static_untouched", "C10");
    }
    cov!(true, "replace_inner.post_reachable");
}

fn replace_inner_contract(pre: (Repr, Ghost)) {
    let (mut r, g) = pre;
    let f = Frame::snapshot(&r, &g);
    // the new value: any inline Repr (Drop/clear use Repr::new(); any other kind is just 16
    // bytes moved in, replace_inner never looks at it)
    let (o, og) = any_inline();
    let fo = Frame::snapshot(&o, &og);
    r.replace_inner(o);
    replace_inner_post(&r, &f, &fo);
}

// @harness name=replace_inner_heap_unique nodebug=quick hist=yes props=C01,C02,C03 class=U tier=quick big=yes
#[kani::proof]
#[kani::stub(alloc::alloc::alloc, v_alloc)]
#[kani::stub(alloc::alloc::dealloc, v_dealloc)]
#[kani::stub(alloc::alloc::realloc, v_realloc)]
fn replace_inner_heap_unique() {
    replace_inner_contract(any_heap_rc(MAX_CAP, true));
}

// @harness name=replace_inner_heap_shared nodebug=thorough hist=yes props=C01,C02,C03 class=U tier=quick big=yes
#[kani::proof]
#[kani::stub(alloc::alloc::alloc, v_alloc)]
#[kani::stub(alloc::alloc::dealloc, v_dealloc)]
#[kani::stub(alloc::alloc::realloc, v_realloc)]
fn replace_inner_heap_shared() {
    replace_inner_contract(any_heap_rc(MAX_CAP, false));
}

// @harness name=replace_inner_heap_reach props=C01,C02,C03 class=U tier=quick covers=replace_inner.shared,replace_inner.last_owner,replace_inner.post_reachable
#[kani::proof]
#[kani::stub(alloc::alloc::alloc, v_alloc)]
#[kani::stub(alloc::alloc::dealloc, v_dealloc)]
#[kani::stub(alloc::alloc::realloc, v_realloc)]
fn replace_inner_heap_reach() {
    arm_covers();
    replace_inner_contract(any_heap(REACH_CAP));
}

// @harness name=replace_inner_static props=C01,C03,C10 class=U tier=quick big=yes
#[kani::proof]
#[kani::stub(alloc::alloc::alloc, v_alloc)]
#[kani::stub(alloc::alloc::dealloc, v_dealloc)]
#[kani::stub(alloc::alloc::realloc, v_realloc)]
fn replace_inner_static() {
    replace_inner_contract(any_static(MAX_CAP));
}

// @harness name=replace_inner_static_reach props=C01,C03,C10 class=U tier=quick covers=replace_inner.post_reachable
#[kani::proof]
#[kani::stub(alloc::alloc::alloc, v_alloc)]
#[kani::stub(alloc::alloc::dealloc, v_dealloc)]
#[kani::stub(alloc::alloc::realloc, v_realloc)]
fn replace_inner_static_reach() {
    arm_covers();
    replace_inner_contract(any_static(REACH_CAP));
}

// @harness name=replace_inner_inline props=C01,C03,C09 class=U tier=quick
#[kani::proof]
#[kani::stub(alloc::alloc::alloc, v_alloc)]
#[kani::stub(alloc::alloc::dealloc, v_dealloc)]
#[kani::stub(alloc::alloc::realloc, v_realloc)]
fn replace_inner_inline() {
    replace_inner_contract(any_inline());
}

// @harness name=replace_inner_inline_reach props=C01,C03,C09 class=U tier=quick covers=replace_inner.post_reachable
#[kani::proof]
#[kani::stub(alloc::alloc::alloc, v_alloc)]
#[kani::stub(alloc::alloc::dealloc, v_dealloc)]
#[kani::stub(alloc::alloc::realloc, v_realloc)]
fn replace_inner_inline_reach() {
    arm_covers();
    replace_inner_contract(any_inline());
}

// ---------------------------------------------------------------------------------------
// shrink_to
// ---------------------------------------------------------------------------------------

pub(crate) fn shrink_to_post(r: &Repr, f: &Frame, m: usize, res: Result<(), ReserveError>) {
    let g = f.g;
    let refused = unsafe { A_REFUSED > 0 };
    match res {
        Err(_) => {
            cov!(true, "shrink_to.err_reachable");
            obl!(unchanged_after_error(f, r), "shrink_to.err_unchanged", "C02,C03,C05,C06,C13");
            obl!(wf(r), "shrink_to.err_usable", "C05");
            obl!(refused, "shrink_to.err_only_if_refused", "C01,C06");
            obl!(f.allocs() + f.reallocs() <= 1 && f.deallocs() == 0, "shrink_to.err_alloc_calls_le_1", "C05");
        }
        Ok(()) => {
            cov!(true, "shrink_to.ok_reachable");
            obl!(wf(r), "shrink_to.wf", "C01,C03,C13,C20");
            let h = view(r);
            obl!(h.len == g.len, "shrink_to.len_same", "C01,C13");
            obl!(f.text_probe_same(r, &h), "shrink_to.text_same", "C01,C13");
            obl!(h.cap <= g.cap || h.cap <= MAX_INLINE_SIZE, "shrink_to.never_grows", "C13");
            obl!(h.cap >= g.len, "shrink_to.cap_ge_len", "C11,C13");
            obl!(h.cap >= m || h.cap >= g.cap, "shrink_to.cap_ge_min_unless_already_below", "C13");
            obl!(f.static_untouched(), "shrink_to.static_untouched", "C10,C02");
            let target = if g.len > m { g.len } else { m };
            if g.kind != K_HEAP {
                obl!(f.same_bits(r) && f.no_alloc_calls(), "shrink_to.non_heap_noop", "C09,C10,C13");
            } else if target <= MAX_INLINE_SIZE {
                cov!(g.rc > 1, "shrink_to.shared_to_inline");
                cov!(g.rc == 1, "shrink_to.unique_to_inline");
                obl!(h.kind == K_INLINE, "shrink_to.to_inline_when_it_fits", "C13");
                if g.rc > 1 {
                    obl!(f.old_block_intact(g.rc - 1) && f.no_alloc_calls(), "shrink_to.shared_to_inline_block_intact", "C02,C03,C11");
                } else {
                    obl!(
                        f.deallocs() == 1 && f.allocs() == 0 && f.reallocs() == 0 && !is_live(g.base),
                        "shrink_to.unique_to_inline_frees_once",
                        "C03"
                    );
                }
            } else if g.cap > target {
                cov!(g.rc > 1, "shrink_to.shared_exact");
                cov!(g.rc == 1, "shrink_to.unique_exact");
                obl!(h.kind == K_HEAP && h.cap == target, "shrink_to.exact_max_len_m", "C13");
                if g.rc > 1 {
                    obl!(f.old_block_intact(g.rc - 1), "shrink_to.shared_old_block_intact", "C02,C03,C11");
                    obl!(h.base != g.base && h.rc == 1, "shrink_to.shared_moves_to_own_block", "C02");
                    obl!(
                        f.allocs() == 1 && f.reallocs() == 0 && f.deallocs() == 0 && live_blocks() == f.live + 1,
                        "shrink_to.shared_is_one_alloc",
                        "C03,C05"
                    );
                } else {
                    obl!(
                        f.reallocs() == 1 && f.allocs() == 0 && f.deallocs() == 0 && live_blocks() == f.live,
                        "shrink_to.unique_is_one_realloc",
                        "C03,C05"
                    );
                    obl!(h.rc == 1, "shrink_to.unique_stays_unique", "C03");
                }
            } else {
                cov!(true, "shrink_to.nothing_to_shrink");
                obl!(f.same_bits(r) && f.no_alloc_calls(), "shrink_to.noop_when_not_larger", "C13");
                if g.rc > 1 {
                    obl!(f.old_block_intact(g.rc), "shrink_to.noop_block_intact", "C02");
                }
            }
        }
    }
}

fn shrink_to_contract(pre: (Repr, Ghost)) {
    unsafe { A_FAIL = true };
    let (mut r, g) = pre;
    let f = Frame::snapshot(&r, &g);
    let m: usize = kani::any();
    let res = r.shrink_to(m);
    shrink_to_post(&r, &f, m, res);
}

// @harness name=shrink_to_heap_unique nodebug=quick hist=yes props=C01,C02,C03,C05,C06,C11,C13 class=U tier=quick big=yes
#[kani::proof]
#[kani::stub(alloc::alloc::alloc, v_alloc)]
#[kani::stub(alloc::alloc::dealloc, v_dealloc)]
#[kani::stub(alloc::alloc::realloc, v_realloc)]
fn shrink_to_heap_unique() {
    shrink_to_contract(any_heap_rc(MAX_CAP, true));
}

// @harness name=shrink_to_heap_shared nodebug=thorough hist=yes props=C01,C02,C03,C05,C06,C11,C13 class=U tier=quick big=yes
#[kani::proof]
#[kani::stub(alloc::alloc::alloc, v_alloc)]
#[kani::stub(alloc::alloc::dealloc, v_dealloc)]
#[kani::stub(alloc::alloc::realloc, v_realloc)]
fn shrink_to_heap_shared() {
    shrink_to_contract(any_heap_rc(MAX_CAP, false));
}

// @harness name=shrink_to_heap_reach props=C01,C02,C03,C05,C06,C11,C13 class=U tier=quick covers=shrink_to.err_reachable,shrink_to.ok_reachable,shrink_to.shared_to_inline,shrink_to.unique_to_inline,shrink_to.shared_exact,shrink_to.unique_exact,shrink_to.nothing_to_shrink
#[kani::proof]
#[kani::stub(alloc::alloc::alloc, v_alloc)]
#[kani::stub(alloc::alloc::dealloc, v_dealloc)]
#[kani::stub(alloc::alloc::realloc, v_realloc)]
fn shrink_to_heap_reach() {
    arm_covers();
    shrink_to_contract(any_heap(REACH_CAP));
}

// @harness name=shrink_to_static props=C01,C10,C13 class=U tier=quick big=yes
#[kani::proof]
#[kani::stub(alloc::alloc::alloc, v_alloc)]
#[kani::stub(alloc::alloc::dealloc, v_dealloc)]
#[kani::stub(alloc::alloc::realloc, v_realloc)]
fn shrink_to_static() {
    shrink_to_contract(any_static(MAX_CAP));
}

// @harness name=shrink_to_inline props=C01,C09,C13 class=U tier=quick covers=shrink_to.ok_reachable
#[kani::proof]
#[kani::stub(alloc::alloc::alloc, v_alloc)]
#[kani::stub(alloc::alloc::dealloc, v_dealloc)]
#[kani::stub(alloc::alloc::realloc, v_realloc)]
fn shrink_to_inline() {
    arm_covers();
    shrink_to_contract(any_inline());
}

// ---------------------------------------------------------------------------------------
// pipeline canary: a deliberately false claim that every run must see FAIL (DESIGN 3.10)
// ---------------------------------------------------------------------------------------

// @harness name=canary props=* class=U tier=quick timeout=120
#[kani::proof]
fn canary() {
    let len: usize = kani::any();
    let add: usize = kani::any();
    kani::assert(
        heap_buffer::amortized_growth(len, add) > len,
        "CANARY: deliberately false claim about amortized_growth (fails for add == 0)",
    );
}
