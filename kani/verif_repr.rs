// Injected (never into /repo, only into the scratch copy) as `src/repr/verif_repr.rs`,
// child module of `crate::repr`, behind `cfg(kani)`.
//
// Part 1: specification vocabulary shared by every contract harness
//   * allocator model (stubs for alloc / realloc / dealloc with a live-block table,
//     counters, layout checks and nondeterministic refusal),
//   * representation invariant `wf` and the abstract view (`Ghost`),
//   * generators of arbitrary well-formed pre-states (`any_inline`, `any_static`,
//     `any_heap`, `any_heap_fixed`, `any_repr`),
//   * frame snapshots (`Frame`) with the clauses F-buf / F-uniq / F-static /
//     F-self-on-error,
//   * local UTF-8 facts.
//
// Nothing here rewrites or shadows a function of the crate: the harnesses in the other
// injected files call the real functions.
#![allow(dead_code, unused_imports, unused_macros, static_mut_refs, clippy::all)]

use super::*;
use core::alloc::Layout;

// ---------------------------------------------------------------------------------------
// obligations
// ---------------------------------------------------------------------------------------

/// One named proof obligation. The description is what the runner reads from Kani's
/// per-check report: `OBL:<function>.<clause>|<properties it serves>`.
macro_rules! obl {
    ($cond:expr, $name:literal, $props:literal) => {
        kani::assert($cond, concat!("OBL:", $name, "|", $props))
    };
}
/// A STRUCTURAL obligation: it pins down how a caller uses a callee whose contract is proved
/// separately (called once, right arguments, nothing written before, delegation). It carries the
/// modular decomposition, not the property itself: when only structural obligations fail, the
/// decomposition no longer matches the code and the check is UNDECIDED (exit 2) - whether the
/// property still holds is then decided by the semantic obligations of the end-to-end harnesses.
macro_rules! sobl {
    ($cond:expr, $name:literal, $props:literal) => {
        kani::assert($cond, concat!("OBL:", $name, "|", $props, "|S"))
    };
}
pub(crate) use sobl;

/// A reachability (non-vacuity) guard: must be SATISFIED in every healthy run.
macro_rules! cov {
    ($cond:expr, $name:literal) => {
        if unsafe { crate::repr::verif_repr::COVERS } {
            kani::cover!($cond, $name);
        }
    };
}
pub(crate) use cov;
pub(crate) use obl;

// ---------------------------------------------------------------------------------------
// allocator model
// ---------------------------------------------------------------------------------------

unsafe extern "Rust" {
    fn __rust_alloc(size: usize, align: usize) -> *mut u8;
    fn __rust_dealloc(ptr: *mut u8, size: usize, align: usize);
    fn __rust_realloc(ptr: *mut u8, old_size: usize, align: usize, new_size: usize) -> *mut u8;
}

/// Requests above this many bytes are always refused (CBMC objects are limited to 2^47
/// bytes). Stated as an assumption in every evidence file.
pub(crate) const ALLOC_LIMIT: usize = 1 << 46;
/// Largest capacity / static object size a generated pre-state may have: 2^VERIF_MAX_CAP_LOG2
/// (compile-time environment of the scratch build; quick tier 16, thorough tier 40).
pub(crate) const MAX_CAP: usize = 1usize << env_log2(option_env!("VERIF_MAX_CAP_LOG2"), 16);
/// Capacity bound of the reachability twins (`*_reach` harnesses).
pub(crate) const REACH_CAP: usize = 64;
/// Reachability guards (`cov!`) are only armed in the `*_reach` twin of a contract harness:
/// the twin runs the same contract function on a small size bound, because every satisfied
/// cover makes CBMC build a witness trace, which costs minutes (2^16-byte symbolic objects)
/// or runs out of memory (2^40). The twins are the vacuity guard of DESIGN 3.10.
pub(crate) static mut COVERS: bool = false;
pub(crate) fn arm_covers() {
    unsafe { COVERS = true };
}

const fn env_log2(v: Option<&str>, default: u32) -> u32 {
    match v {
        None => default,
        Some(s) => {
            let b = s.as_bytes();
            let mut i = 0;
            let mut n: u32 = 0;
            while i < b.len() {
                n = n * 10 + (b[i] - b'0') as u32;
                i += 1;
            }
            n
        }
    }
}
pub(crate) const HDR: usize = 16;
pub(crate) const MAX56: usize = (1 << 56) - 1;

pub(crate) const NB: usize = 4;
pub(crate) static mut A_ALLOC: usize = 0;
pub(crate) static mut A_REALLOC: usize = 0;
pub(crate) static mut A_DEALLOC: usize = 0;
pub(crate) static mut A_REFUSED: usize = 0;
/// fault injection: when true every request may be refused nondeterministically
pub(crate) static mut A_FAIL: bool = false;
/// when true any allocator call at all is a violated obligation (used by the
/// "no effect before the index check" harnesses)
pub(crate) static mut A_TRAP: bool = false;
pub(crate) static mut B_PTR: [*mut u8; NB] = [core::ptr::null_mut(); NB];
pub(crate) static mut B_SIZE: [usize; NB] = [0; NB];
pub(crate) static mut B_LIVE: [bool; NB] = [false; NB];
/// size most recently requested from alloc/realloc (for "exactly one allocation with
/// capacity == len")
pub(crate) static mut A_LAST_SIZE: usize = 0;

pub(crate) fn alloc_calls() -> usize {
    unsafe { A_ALLOC + A_REALLOC + A_DEALLOC }
}
pub(crate) fn live_blocks() -> usize {
    let mut n = 0;
    let mut i = 0;
    while i < NB {
        if unsafe { B_LIVE[i] } {
            n += 1;
        }
        i += 1;
    }
    n
}
pub(crate) fn is_live(p: *mut u8) -> bool {
    let mut i = 0;
    while i < NB {
        if unsafe { B_LIVE[i] && B_PTR[i] == p } {
            return true;
        }
        i += 1;
    }
    false
}
pub(crate) fn live_size(p: *mut u8) -> usize {
    let mut i = 0;
    while i < NB {
        if unsafe { B_LIVE[i] && B_PTR[i] == p } {
            return unsafe { B_SIZE[i] };
        }
        i += 1;
    }
    0
}
fn register(p: *mut u8, size: usize) {
    let mut i = 0;
    while i < NB {
        if unsafe { !B_LIVE[i] } {
            unsafe {
                B_LIVE[i] = true;
                B_PTR[i] = p;
                B_SIZE[i] = size;
            }
            return;
        }
        i += 1;
    }
    // table full: the harness is mis-sized, never a property violation
    kani::assert(false, "VERIF-INTERNAL: live-block table overflow");
}
fn slot_of(p: *mut u8) -> usize {
    let mut i = 0;
    while i < NB {
        if unsafe { B_LIVE[i] && B_PTR[i] == p } {
            return i;
        }
        i += 1;
    }
    NB
}

/// contract of `alloc::alloc::alloc` as the crate may rely on it (GlobalAlloc): size > 0,
/// returns null or a fresh block of exactly `layout.size()` bytes
pub(crate) unsafe fn v_alloc(layout: Layout) -> *mut u8 {
    unsafe {
        obl!(!A_TRAP, "alloc.no_effect_before_index_check", "C07");
        A_ALLOC += 1;
        A_LAST_SIZE = layout.size();
        obl!(layout.size() > 0, "alloc.nonzero_size", "C03,C06");
        obl!(layout.align() == 8, "alloc.align_is_word", "C03");
        if layout.size() > ALLOC_LIMIT || (A_FAIL && kani::any()) {
            A_REFUSED += 1;
            return core::ptr::null_mut();
        }
        let p = __rust_alloc(layout.size(), layout.align());
        kani::assume(!p.is_null());
        register(p, layout.size());
        p
    }
}

/// contract of `dealloc`: the block is live, was allocated with this very layout; plus
/// the crate-level protocol "only when the reference count in its header is zero"
pub(crate) unsafe fn v_dealloc(p: *mut u8, layout: Layout) {
    unsafe {
        obl!(!A_TRAP, "dealloc.no_effect_before_index_check", "C07");
        A_DEALLOC += 1;
        let s = slot_of(p);
        obl!(s < NB, "dealloc.block_is_live_heap_block", "C03,C05");
        if s < NB {
            obl!(B_SIZE[s] == layout.size() && layout.align() == 8, "dealloc.layout_match", "C03");
            obl!(*(p as *const usize) == 0, "dealloc.only_when_count_zero", "C02,C03,C05");
            B_LIVE[s] = false;
            __rust_dealloc(p, layout.size(), layout.align());
        }
    }
}

/// contract of `realloc`: live block, same layout, new size > 0; on refusal the old block
/// is untouched; crate-level protocol "never resized under a reader": count == 1
pub(crate) unsafe fn v_realloc(p: *mut u8, layout: Layout, new_size: usize) -> *mut u8 {
    unsafe {
        obl!(!A_TRAP, "realloc.no_effect_before_index_check", "C07");
        A_REALLOC += 1;
        A_LAST_SIZE = new_size;
        let s = slot_of(p);
        obl!(s < NB, "realloc.block_is_live_heap_block", "C03,C05");
        obl!(new_size > 0, "realloc.nonzero_size", "C03,C06");
        if s >= NB {
            return core::ptr::null_mut();
        }
        obl!(B_SIZE[s] == layout.size() && layout.align() == 8, "realloc.layout_match", "C03");
        obl!(*(p as *const usize) == 1, "realloc.only_when_unique", "C02,C03");
        if new_size > ALLOC_LIMIT || (A_FAIL && kani::any()) {
            A_REFUSED += 1;
            return core::ptr::null_mut();
        }
        let q = __rust_realloc(p, layout.size(), layout.align(), new_size);
        kani::assume(!q.is_null());
        B_PTR[s] = q;
        B_SIZE[s] = new_size;
        q
    }
}

// ---------------------------------------------------------------------------------------
// abstract view
// ---------------------------------------------------------------------------------------

pub(crate) const K_INLINE: u8 = 0;
pub(crate) const K_STATIC: u8 = 1;
pub(crate) const K_HEAP: u8 = 2;

/// Ghost view of one well-formed `Repr`, produced by the generators (pre-state) or decoded
/// by `view` (post-state) *without* calling the functions under verification.
#[derive(Clone, Copy)]
pub(crate) struct Ghost {
    pub kind: u8,
    pub len: usize,
    /// heap: header capacity; static: len; inline: 16   (== what `capacity()` must report)
    pub cap: usize,
    /// heap: reference count in the header; otherwise 0
    pub rc: usize,
    /// heap: start of the allocation (header); static: start of the borrowed object;
    /// inline: null
    pub base: *mut u8,
    /// static: size of the borrowed object (>= len); otherwise 0
    pub obj: usize,
}

#[repr(C)]
pub(crate) struct RawWords(pub *const u8, pub usize);

pub(crate) fn raw_bytes(r: &Repr) -> [u8; 16] {
    // byte image of the inline part; for pointer-carrying kinds only bytes 8..16 are
    // meaningful
    unsafe { *(r as *const Repr as *const [u8; 16]) }
}
pub(crate) fn word1(r: &Repr) -> usize {
    unsafe { *(r as *const Repr as *const usize).add(1) }
}
pub(crate) fn word0_ptr(r: &Repr) -> *mut u8 {
    r.0 as *mut u8
}
pub(crate) fn lastb(r: &Repr) -> u8 {
    unsafe { *(r as *const Repr as *const u8).add(15) }
}

/// Decode the abstract view of `r` from its bits and (for heap) its header. Independent
/// of `Repr::len/capacity/as_bytes`, which are themselves under contract against it.
pub(crate) fn view(r: &Repr) -> Ghost {
    let lb = lastb(r);
    if lb == 0xD0 {
        let data = word0_ptr(r);
        let base = unsafe { data.sub(HDR) };
        let rc = unsafe { *(base as *const usize) };
        let cap = unsafe { *(base as *const usize).add(1) };
        Ghost { kind: K_HEAP, len: word1(r) & MAX56, cap, rc, base, obj: 0 }
    } else if lb == 0xD1 {
        let len = word1(r) & MAX56;
        Ghost { kind: K_STATIC, len, cap: len, rc: 0, base: word0_ptr(r), obj: 0 }
    } else {
        let len = if lb >= 0xC0 { (lb - 0xC0) as usize } else { 16 };
        Ghost { kind: K_INLINE, len, cap: 16, rc: 0, base: core::ptr::null_mut(), obj: 0 }
    }
}

/// text byte `i` (< len) of `r`, read through the ghost view only
pub(crate) fn text_at(r: &Repr, g: &Ghost, i: usize) -> u8 {
    if g.kind == K_HEAP {
        unsafe { *g.base.add(HDR + i) }
    } else if g.kind == K_STATIC {
        unsafe { *g.base.add(i) }
    } else {
        unsafe { *(r as *const Repr as *const u8).add(i) }
    }
}

/// The representation invariant (DESIGN §3.2), as an executable predicate over the bits,
/// the header and the allocator model. `len > 0 ==> last text byte < 0xC0` is the one
/// consequence of UTF-8 validity that storage decoding itself depends on.
pub(crate) fn wf(r: &Repr) -> bool {
    let lb = lastb(r);
    if lb > 0xD1 {
        return false;
    }
    let g = view(r);
    if g.kind == K_HEAP {
        is_live(g.base)
            && live_size(g.base) == HDR + g.cap
            && g.rc >= 1
            && g.cap <= MAX56
            && g.len <= g.cap
            && (g.len == 0 || text_at(r, &g, g.len - 1) < 0xC0)
    } else if g.kind == K_STATIC {
        !g.base.is_null() && (g.len == 0 || text_at(r, &g, g.len - 1) < 0xC0)
    } else {
        g.len == 0 || text_at(r, &g, g.len - 1) < 0xC0
    }
}

// ---------------------------------------------------------------------------------------
// generators: arbitrary well-formed pre-states
// ---------------------------------------------------------------------------------------

/// every 16-byte value that is a well-formed inline `Repr`
pub(crate) fn any_inline() -> (Repr, Ghost) {
    let b: [u8; 16] = kani::any();
    kani::assume(b[15] <= 0xCF);
    let r: Repr = unsafe { core::mem::transmute(b) };
    let g = view(&r);
    if g.len > 0 {
        kani::assume(b[g.len - 1] < 0xC0);
    }
    (r, g)
}

/// a `Repr` borrowing a static object of `n` bytes, `17 <= n <= max_obj`, truncated to any
/// `len <= n`. The object is a separate CBMC object that the allocator model does not know
/// (freeing it violates `dealloc.block_is_live_heap_block`); it is writable in the model,
/// so a write through it is observable by F-static.
pub(crate) fn any_static(max_obj: usize) -> (Repr, Ghost) {
    let n: usize = kani::any();
    kani::assume(n > MAX_INLINE_SIZE && n <= max_obj);
    let len: usize = kani::any();
    kani::assume(len <= n);
    let p = unsafe { __rust_alloc(n, 1) };
    kani::assume(!p.is_null());
    if len > 0 {
        kani::assume(unsafe { *p.add(len - 1) } < 0xC0);
    }
    let r: Repr =
        unsafe { core::mem::transmute(RawWords(p as *const u8, len | (0xD1usize << 56))) };
    (r, Ghost { kind: K_STATIC, len, cap: len, rc: 0, base: p, obj: n })
}

fn mk_heap(cap: usize, len: usize, rc: usize) -> (Repr, Ghost) {
    let p = unsafe { __rust_alloc(HDR + cap, 8) };
    kani::assume(!p.is_null());
    register(p, HDR + cap);
    unsafe {
        *(p as *mut usize) = rc;
        *(p as *mut usize).add(1) = cap;
    }
    if len > 0 {
        kani::assume(unsafe { *p.add(HDR + len - 1) } < 0xC0);
    }
    let r: Repr = unsafe {
        core::mem::transmute(RawWords(p.add(HDR) as *const u8, len | (0xD0usize << 56)))
    };
    (r, Ghost { kind: K_HEAP, len, cap, rc, base: p, obj: 0 })
}

/// heap block of symbolic capacity `0 <= cap <= max_cap` (capacities <= 16 are reachable:
/// `ensure_modifiable` on a shared block truncated to <= 16 bytes copies it into a block of
/// capacity == len), any `len <= cap`, any reference count `1..=isize::MAX`, arbitrary
/// contents (incl. stale bytes behind `len`)
pub(crate) fn any_heap(max_cap: usize) -> (Repr, Ghost) {
    let cap: usize = kani::any();
    kani::assume(cap <= max_cap);
    let len: usize = kani::any();
    kani::assume(len <= cap);
    let rc: usize = kani::any();
    kani::assume(rc >= 1 && rc <= isize::MAX as usize);
    mk_heap(cap, len, rc)
}

/// as `any_heap`, restricted to the sole-owner (`unique`) or the shared (`rc >= 2`) case
pub(crate) fn any_heap_rc(max_cap: usize, unique: bool) -> (Repr, Ghost) {
    let cap: usize = kani::any();
    kani::assume(cap <= max_cap);
    let len: usize = kani::any();
    kani::assume(len <= cap);
    let rc: usize = if unique { 1 } else { kani::any() };
    kani::assume(rc >= 1 && rc <= isize::MAX as usize);
    kani::assume(unique || rc >= 2);
    mk_heap(cap, len, rc)
}

/// heap block of *concrete* capacity (size class B, DESIGN §3.5)
pub(crate) fn any_heap_fixed(cap: usize) -> (Repr, Ghost) {
    let len: usize = kani::any();
    kani::assume(len <= cap);
    let rc: usize = kani::any();
    kani::assume(rc >= 1 && rc <= isize::MAX as usize);
    mk_heap(cap, len, rc)
}

/// any well-formed `Repr` of any kind
pub(crate) fn any_repr(max: usize) -> (Repr, Ghost) {
    let k: u8 = kani::any();
    if k == 0 {
        any_inline()
    } else if k == 1 {
        any_static(max)
    } else {
        any_heap(max)
    }
}

// ---------------------------------------------------------------------------------------
// frames
// ---------------------------------------------------------------------------------------

/// Snapshot of everything another handle could observe, taken before the call, plus the
/// symbolic probes used to state "for all i" clauses.
pub(crate) struct Frame {
    pub bits: [u8; 16],
    pub ptr: *mut u8,
    pub g: Ghost,
    /// probe into the text, `ti < len` (meaningless when len == 0)
    pub ti: usize,
    pub tb: u8,
    /// probe into the whole block / static object: `bi < cap` (heap) or `bi < obj`
    pub bi: usize,
    pub bb: u8,
    pub calls: usize,
    pub live: usize,
    pub n_alloc: usize,
    pub n_realloc: usize,
    pub n_dealloc: usize,
}

impl Frame {
    pub(crate) fn snapshot(r: &Repr, g: &Ghost) -> Frame {
        let ti: usize = kani::any();
        let bi: usize = kani::any();
        let mut tb = 0;
        let mut bb = 0;
        if g.len > 0 {
            kani::assume(ti < g.len);
            tb = text_at(r, g, ti);
        }
        if g.kind == K_HEAP {
            kani::assume(bi < g.cap);
            bb = unsafe { *g.base.add(HDR + bi) };
        } else if g.kind == K_STATIC {
            kani::assume(bi < g.obj);
            bb = unsafe { *g.base.add(bi) };
        }
        Frame {
            bits: raw_bytes(r),
            ptr: word0_ptr(r),
            g: *g,
            ti,
            tb,
            bi,
            bb,
            calls: alloc_calls(),
            live: live_blocks(),
            n_alloc: unsafe { A_ALLOC },
            n_realloc: unsafe { A_REALLOC },
            n_dealloc: unsafe { A_DEALLOC },
        }
    }

    /// the 16 bytes of the handle are exactly as before (for pointer kinds: same pointer,
    /// same second word)
    pub(crate) fn same_bits(&self, r: &Repr) -> bool {
        if self.g.kind == K_INLINE {
            let b = raw_bytes(r);
            let mut i = 0;
            let mut ok = true;
            while i < 16 {
                if b[i] != self.bits[i] {
                    ok = false;
                }
                i += 1;
            }
            ok
        } else {
            word0_ptr(r) == self.ptr && word1(r) == (self.g.len | ((if self.g.kind == K_HEAP { 0xD0usize } else { 0xD1usize }) << 56))
        }
    }

    /// no allocator call at all since the snapshot
    pub(crate) fn no_alloc_calls(&self) -> bool {
        alloc_calls() == self.calls
    }
    pub(crate) fn allocs(&self) -> usize {
        unsafe { A_ALLOC - self.n_alloc }
    }
    pub(crate) fn reallocs(&self) -> usize {
        unsafe { A_REALLOC - self.n_realloc }
    }
    pub(crate) fn deallocs(&self) -> usize {
        unsafe { A_DEALLOC - self.n_dealloc }
    }

    /// F-static: the borrowed object is byte-identical (symbolic index over the whole
    /// object, not only the text)
    pub(crate) fn static_untouched(&self) -> bool {
        self.g.kind != K_STATIC || unsafe { *self.g.base.add(self.bi) } == self.bb
    }

    /// F-buf, shared case (`rc > 1` before): block still live with its size, header
    /// capacity and every byte in [0, cap) unchanged, count == `expect_rc`
    pub(crate) fn old_block_intact(&self, expect_rc: usize) -> bool {
        let b = self.g.base;
        is_live(b)
            && live_size(b) == HDR + self.g.cap
            && unsafe { *(b as *const usize) } == expect_rc
            && unsafe { *(b as *const usize).add(1) } == self.g.cap
            && unsafe { *b.add(HDR + self.bi) } == self.bb
    }

    /// text of `r` (with view `g`) has the same byte as the old text at the text probe
    pub(crate) fn text_probe_same(&self, r: &Repr, g: &Ghost) -> bool {
        self.g.len == 0 || (self.ti < g.len && text_at(r, g, self.ti) == self.tb)
    }
}

/// F-self-on-error, all kinds: handle bits, reference count, block contents, allocator
/// live set exactly as before. (A refused request is counted but changes nothing.)
pub(crate) fn unchanged_after_error(f: &Frame, r: &Repr) -> bool {
    if !f.same_bits(r) {
        return false;
    }
    if live_blocks() != f.live {
        return false;
    }
    if f.g.kind == K_HEAP { f.old_block_intact(f.g.rc) } else { f.static_untouched() }
}

// ---------------------------------------------------------------------------------------
// local UTF-8 facts (DESIGN §3.3)
// ---------------------------------------------------------------------------------------

fn rd(p: *const u8, i: usize) -> u8 {
    unsafe { *p.add(i) }
}

/// pointer to text byte 0 of `r` (through the ghost view only)
pub(crate) fn text_ptr(r: &Repr, g: &Ghost) -> *const u8 {
    if g.kind == K_HEAP {
        unsafe { g.base.add(HDR) as *const u8 }
    } else if g.kind == K_STATIC {
        g.base as *const u8
    } else {
        r as *const Repr as *const u8
    }
}

pub(crate) fn is_cont(b: u8) -> bool {
    (b & 0xC0) == 0x80
}

/// width of the well-formed UTF-8 scalar that starts at byte `k` of a text of `len` bytes
/// read through `at`, or 0 if there is none (Unicode 15 Table 3-7)
pub(crate) fn scalar_width_at(p: *const u8, len: usize, k: usize) -> usize {
    if k >= len {
        return 0;
    }
    let b0 = rd(p, k);
    if b0 < 0x80 {
        return 1;
    }
    if b0 >= 0xC2 && b0 <= 0xDF {
        return if k + 2 <= len && is_cont(rd(p, k + 1)) { 2 } else { 0 };
    }
    if b0 >= 0xE0 && b0 <= 0xEF {
        if k + 3 > len {
            return 0;
        }
        let b1 = rd(p, k + 1);
        let ok1 = if b0 == 0xE0 {
            b1 >= 0xA0 && b1 <= 0xBF
        } else if b0 == 0xED {
            b1 >= 0x80 && b1 <= 0x9F
        } else {
            is_cont(b1)
        };
        return if ok1 && is_cont(rd(p, k + 2)) { 3 } else { 0 };
    }
    if b0 >= 0xF0 && b0 <= 0xF4 {
        if k + 4 > len {
            return 0;
        }
        let b1 = rd(p, k + 1);
        let ok1 = if b0 == 0xF0 {
            b1 >= 0x90 && b1 <= 0xBF
        } else if b0 == 0xF4 {
            b1 >= 0x80 && b1 <= 0x8F
        } else {
            is_cont(b1)
        };
        return if ok1 && is_cont(rd(p, k + 2)) && is_cont(rd(p, k + 3)) { 4 } else { 0 };
    }
    0
}

/// the scalar value encoded by the well-formed sequence of width `w` at `k`
pub(crate) fn scalar_value_at(p: *const u8, k: usize, w: usize) -> u32 {
    let b0 = rd(p, k) as u32;
    if w == 1 {
        b0
    } else if w == 2 {
        ((b0 & 0x1F) << 6) | (rd(p, k + 1) as u32 & 0x3F)
    } else if w == 3 {
        ((b0 & 0x0F) << 12) | ((rd(p, k + 1) as u32 & 0x3F) << 6) | (rd(p, k + 2) as u32 & 0x3F)
    } else {
        ((b0 & 0x07) << 18)
            | ((rd(p, k + 1) as u32 & 0x3F) << 12)
            | ((rd(p, k + 2) as u32 & 0x3F) << 6)
            | (rd(p, k + 3) as u32 & 0x3F)
    }
}
